"""The verification-condition generator: symbolic execution of real function bodies against sidecar contracts."""
import ast
import re

import z3
from z3 import (IntVal, BoolVal, Length, If, And, Or, Not, Implies, is_true, is_false, simplify, IntSort, BoolSort,
                Empty, Unit, Concat)

from . import ops
from .sorts import Str, Tok, TokSeq, E, ESeq, seqsort, conj, NONE_CAT
from .values import (Val, VI, VB, VS, VNone, VTok, VOpt, VTuple, VSeq, VList, VObj, VConst, VE, lift, strz, St, like,
                     Unsupported, fresh, elem_val)
from .smt import Obl, quick_sat
from .spec import SpecEval, Ctx, QBool, boolz
from .exprs import ExprMixin
from .stmts import StmtMixin
from .calls import CallMixin

BUILTIN_EXC = {'StopIteration', 'IndexError', 'AttributeError', 'KeyError', 'TypeError', 'ValueError',
               'AssertionError', 'EOFError', 'RuntimeError', 'ZeroDivisionError'}


class Engine(ExprMixin, CallMixin, StmtMixin):
    def __init__(self, repo, reg, feas_ms=150):
        self.repo, self.reg = repo, reg
        self.spec = SpecEval(self)
        self.obls = []
        self.cur = None           # contract being verified
        self.cur_fn = None        # FuncInfo
        self.feas_ms = feas_ms
        self.stats = {'paths': 0, 'feas_checks': 0, 'contracts_applied': 0}
        self.unsupported = {}     # contract key -> reason
        self.entry = None
        self.inline_depth = 0

    # ------------------------------------------------------------------ types
    def fresh_val(self, ty, name, st):
        ty = ty.strip()
        if ty.endswith('?'):
            return Val('opt', None, isnone=fresh(name + '_none', BoolSort()), some=self.fresh_val(ty[:-1], name, st))
        if ty == 'int':
            return VI(fresh(name, IntSort()))
        if ty == 'nat':
            v = VI(fresh(name, IntSort()))
            st.assume(v.z >= 0)
            return v
        if ty == 'bool':
            return VB(fresh(name, BoolSort()))
        if ty == 'str':
            return VS(fresh(name, Str))
        if ty == 'tok':
            return VTok(fresh(name, Tok), fresh=fresh(name + '_isfresh', BoolSort()))
        if ty == 'freshtok':
            return VTok(fresh(name, Tok), fresh=True)
        if ty == 'E':
            return VE(fresh(name, E))
        if ty in ('node', 'item'):
            from .sorts import SORTS
            return Val(ty, fresh(name, SORTS[ty]))
        if ty == 'none':
            return VNone
        if ty == 'nokwargs':
            return Val('kwargs', None, items={})
        if ty == 'any':
            return Val('opaque', None, what=name)
        if ty == 'elist':
            return self.fresh_val('seq[E]', name, st)
        if ty == 'strlike':
            return VS(fresh(name, Str))
        if ty.startswith('seq['):
            el = ty[4:-1]
            return VSeq(fresh(name, seqsort(el)), el)
        if ty.startswith('tuple['):
            parts = _split_types(ty[6:-1])
            return VTuple([self.fresh_val(p, '%s_%d' % (name, i), st) for i, p in enumerate(parts)])
        if ty.startswith('slice'):
            parts = _split_types(ty[6:-1]) if '[' in ty else ['int?', 'int?']
            return Val('slice', None, lo=self.fresh_val(parts[0], name + '_lo', st),
                       hi=self.fresh_val(parts[1], name + '_hi', st), step=None)
        if ty.startswith('const:'):
            return self.lookup_global(ty[6:], None)
        if ':' in ty and ty.split(':')[0] in self.reg.views:
            vname, cls = ty.split(':')
            obj = self.fresh_val(vname, name, st)
            obj.a['cls'] = cls
            return obj
        if ty in self.reg.views:
            view = self.reg.views[ty]
            obj = st.new_obj(view.qual, {})
            for f, fty in view.fields.items():
                st.set_field(obj, f, self.fresh_val(fty, '%s_%s' % (name, f), st))
            obj.a['view'] = view.short
            return obj
        if ty.startswith('fn:'):
            return Val('func', None, abstract=ty[3:], name=name)
        raise Unsupported('type ' + ty)

    def matches(self, v, ty):
        ty = ty.strip()
        if ty == 'any':
            return True
        if ty.endswith('?'):
            return v.ty == 'none' or (v.ty == 'opt' and self.matches(v.a['some'], ty[:-1])) or self.matches(v, ty[:-1])
        if ty in ('int', 'nat'):
            return v.ty == 'int'
        if ty == 'E' and v.ty == 'obj':
            return 'view' in v.a and v.a['view'] == 'UExpr' or (self._view_or_none(v) is not None and
                                                                  self._view_or_none(v).short == 'UExpr')
        if ty in ('bool', 'str', 'E', 'none', 'node', 'item'):
            return v.ty == ty
        if ty == 'nokwargs':
            return v.ty == 'kwargs' and not v.a['items']
        if ty in ('tok', 'freshtok'):
            return v.ty == 'tok'
        if ty == 'strlike':
            return v.ty in ('str', 'tok')
        if ty.startswith('seq['):
            if v.ty == 'seq':
                return v.a['elem'] == ty[4:-1]
            return self._as_seq(v, ty[4:-1]) is not None
        if ty.startswith('tuple['):
            parts = _split_types(ty[6:-1])
            return v.ty == 'tuple' and len(parts) == len(v.a['items']) and all(
                self.matches(x, p) for x, p in zip(v.a['items'], parts))
        if ty.startswith('slice'):
            return v.ty == 'slice'
        if ':' in ty and ty.split(':')[0] in self.reg.views:
            vname, cls = ty.split(':')
            return v.ty == 'obj' and cls in self.repo.mro(v.a['cls']) and self.matches(v, vname)
        if ty == 'elist':
            if v.ty == 'obj' and v.a.get('view', '') == 'TexArgs':
                return True
            try:
                from contracts.tree import as_eseq
                as_eseq(v)
                return True
            except Unsupported:
                return False
        if ty in self.reg.views:
            if v.ty != 'obj':
                return False
            if 'view' in v.a:
                return v.a['view'] == ty
            q = self.reg.views[ty].qual
            return v.a['cls'] == q or q in self.repo.mro(v.a['cls'])
        if ty.startswith('fn:'):
            return v.ty == 'func'
        if ty.startswith('const:'):
            return True
        return False

    # ------------------------------------------------------------------ names
    def lookup_global(self, name, module):
        module = module or (self.cur_fn.module if self.cur_fn else None)
        if module and self.repo.has_glob(module, name):
            return lift_global(self.repo.glob(module, name))
        for m in ('utils', 'tokens', 'data', 'reader', 'category'):
            if self.repo.has_glob(m, name):
                return lift_global(self.repo.glob(m, name))
        return None

    # ------------------------------------------------------------------ quantifier instantiation
    def touch(self, st, k, instantiate=True):
        """register an index term; instantiate the quantified assumptions at it"""
        if getattr(self, '_instantiating', 0):
            return          # index terms that only occur inside an instance do not trigger further instances
        if isinstance(k, int):
            k = IntVal(k)
        k = simplify(k)
        key = k.sexpr()
        if key in st.interest:
            return
        st.interest[key] = k
        if instantiate:
            for q in list(st.quants):
                st.fact(self.inst(q, k, st))

    def inst(self, q, k, sink=None):
        from .values import FACT_SINK
        self._instantiating = getattr(self, '_instantiating', 0) + 1
        saved = FACT_SINK[0]
        if sink is not None:
            FACT_SINK[0] = sink
        try:
            return q.instance(k)
        finally:
            self._instantiating -= 1
            FACT_SINK[0] = saved

    def assume_clause(self, st, items):
        for it in items:
            if isinstance(it, QBool):
                st.quants.append(it)
                for k in list(st.interest.values()):
                    st.fact(self.inst(it, k, st))
            else:
                st.assume(it)

    def goal_of(self, items, st=None):
        """clause items -> one z3 goal (quantified parts skolemised; the state's quantified assumptions are
        instantiated at the skolem constant)"""
        gs = []
        for it in items:
            if isinstance(it, QBool):
                k = fresh('sk', IntSort())
                if st is not None:
                    self.touch(st, k)
                g = self.inst(it, k, st)
                if st is not None:
                    # neighbours mentioned by the goal instance (k+1, len-1, ...) are instantiation points too
                    for sub in _index_terms(g):
                        self.touch(st, sub)
                gs.append(g)
            else:
                gs.append(it)
        return conj(gs)

    def inv_of(self, obj, ctx):
        if obj.ty != 'obj':
            raise Unsupported('inv() of ' + obj.ty)
        view = self.view_of(obj)
        zs = []
        c2 = ctx.with_names({'self': obj})
        for cl in view.inv:
            for it in self.spec.clause(cl.text, c2):
                if isinstance(it, QBool):
                    raise Unsupported('quantified class invariant')
                zs.append(it)
        return conj(zs)

    def truth_of(self, v, st):
        if v.ty == 'obj':
            view = self._view_or_none(v)
            if view is None or view.truth is None:
                if 'builtins.str' in self.repo.mro(v.a['cls']) or 'builtins.list' in self.repo.mro(v.a['cls']):
                    if view is None:
                        raise Unsupported('truthiness of %s' % v.a['cls'])
                return BoolVal(True)
            ctx = Ctx(self, st, {'self': v})
            return self.goal_of(self.spec.clause(view.truth, ctx))
        if v.ty == 'opt' and v.a['some'].ty in ('obj', 'node', 'item'):
            return And(Not(v.a['isnone']), self.truth_of(v.a['some'], st))
        if v.ty == 'node':
            return BoolVal(True)        # TexNode defines neither __bool__ nor __len__
        if v.ty == 'item':
            from .sorts import Item
            from .ops import ser
            return If(Item.is_wrapped(v.z), True, Length(ser(Item.leaf(v.z))) > 0)
        return ops.truth(v)

    def view_of(self, obj):
        if 'view' in obj.a:
            return self.reg.views[obj.a['view']]
        for q in self.repo.mro(obj.a['cls']):
            if q in self.reg.views_by_qual:
                return self.reg.views_by_qual[q]
        raise Unsupported('no view for class ' + obj.a['cls'])

    # ------------------------------------------------------------------ branching
    def split(self, st, cond):
        """-> (state where cond, state where not cond); None when infeasible"""
        if isinstance(cond, bool):
            cond = BoolVal(cond)
        c = simplify(cond)
        if is_true(c):
            return st, None
        if is_false(c):
            return None, st
        self.stats['feas_checks'] += 2
        hy = st.hyps()
        t = f = None
        if quick_sat(hy + [c], self.feas_ms):
            t = st.fork()
            t.assume(c)
        if quick_sat(hy + [Not(c)], self.feas_ms):
            f = st if t is None else st.fork()
            f.assume(simplify(Not(c)))
        return t, f

    def finish(self, st, guards, val):
        """turn definedness guards into raise paths"""
        outs = []
        cur = st
        for ok, exc in guards:
            t, f = self.split(cur, ok)
            if f is not None:
                outs.append(('raise', f, exc))
            if t is None:
                return outs
            cur = t
        outs.append(('val', cur, val))
        return outs

    # ------------------------------------------------------------------ obligations
    def oblige(self, name, st, goal, kind='A', props=(), meta=None):
        if getattr(self, 'suppress_obligations', 0):
            return
        if isinstance(goal, bool):
            goal = BoolVal(goal)
        g = simplify(goal)
        if is_true(g):
            self.obls.append(Obl(name, [], BoolVal(True), kind, props, meta=dict(meta or {}, trivial=True),
                                 func=self.cur.key if self.cur else None))
            return
        self.obls.append(Obl(name, st.hyps(), goal, kind, props, watch=self.watch_terms(), meta=meta,
                             func=self.cur.key if self.cur else None))
        if kind == 'P' and not is_false(g):
            # vacuity guard: on at least one path the hypotheses of this clause must be satisfiable (not for a goal
            # that is literally False - `no-raise[...]` - whose proof *is* the infeasibility of the path)
            self.obls.append(Obl(name + '#nonvacuous', st.hyps(), BoolVal(False), 'V', (),
                                 meta={'expect': 'sat', 'group': name + '#nonvacuous'},
                                 func=self.cur.key if self.cur else None))

    def watch_terms(self):
        w = {}
        if self.entry is None:
            return w

        def add(prefix, v):
            if v.ty in ('int', 'bool', 'str', 'tok', 'seq', 'E') and v.z is not None:
                w[prefix] = v.z
            elif v.ty == 'opt':
                w[prefix + '.isnone'] = v.a['isnone']
                add(prefix + '.some', v.a['some'])
            elif v.ty == 'tuple':
                for i, x in enumerate(v.a['items']):
                    add('%s.%d' % (prefix, i), x)
            elif v.ty == 'slice':
                for k in ('lo', 'hi'):
                    if v.a[k] is not None:
                        add(prefix + '.' + k, v.a[k])
            elif v.ty == 'obj':
                for f, x in self.entry.heap.get(v.a['ref'], {}).items():
                    add(prefix + '.' + f, x)
        for k, v in self.entry.env.items():
            add(k, v)
        for k, v in self.entry.ghost.items():
            if isinstance(v, Val):
                add(k, v)
        return w

    # ------------------------------------------------------------------ verification of one function body
    def verify(self, c):
        """generate the obligations of contract c against the real body"""
        self.cur = c
        fi = self.repo.func(c.qual)
        self.cur_fn = fi
        n0 = len(self.obls)
        try:
            self._verify(c, fi)
        except Unsupported as e:
            del self.obls[n0:]
            self.unsupported[c.key] = str(e)
        except RecursionError:
            del self.obls[n0:]
            self.unsupported[c.key] = 'recursion limit in the executor'
        except (KeyError, AttributeError, IndexError, TypeError, ValueError, z3.Z3Exception) as e:
            # the executor met code it does not model and failed inside: the function is out of reach, the run goes on
            import traceback
            where = traceback.extract_tb(e.__traceback__)[-1]
            del self.obls[n0:]
            self.unsupported[c.key] = 'executor error %s: %s (%s:%d)' % (type(e).__name__, str(e)[:80],
                                                                          where.filename.split('/')[-1], where.lineno)
        finally:
            self.cur = None
            self.cur_fn = None
            self.entry = None
        return self.obls[n0:]

    def _verify(self, c, fi):
        st = St()
        names = {}
        a = fi.node.args
        params = [x.arg for x in a.posonlyargs + a.args] + ([a.vararg.arg] if a.vararg else []) + \
                 [x.arg for x in a.kwonlyargs] + ([a.kwarg.arg] if a.kwarg else [])
        for p in params:
            if p not in c.types:
                raise Unsupported('contract %s gives no type for parameter %s' % (c.key, p))
            v = self.fresh_val(c.types[p], p, st)
            st.env[p] = v
            names[p] = v
        for g, gty in c.ghosts.items():
            st.ghost[g] = self.fresh_val(gty, g, st)
        if fi.is_generator:
            st.ghost['$out'] = VSeq(Empty(seqsort(c.result[4:-1])), c.result[4:-1]) if c.result.startswith('seq[') \
                else None
        ctx = Ctx(self, st, names, module=fi.module)
        for cl in c.requires:
            self.assume_clause(st, self.spec.clause(cl.text, ctx))
        for h in c.init_hooks:
            h(self, st, names)
        for h in self.reg.entry_hooks:
            h(self, st, names)
        # vacuity guard: the precondition must be satisfiable
        self.obls.append(Obl('%s#requires-satisfiable' % c.key, st.hyps(), BoolVal(False), 'V', (),
                             meta={'expect': 'sat'}, func=c.key))
        self.entry = st.fork()
        self.entry_names = dict(names)
        st.ghost['$measure0'] = self._measure(c, ctx)
        outs = self.block(fi.node.body, st)
        reached = 0
        for o in outs:
            kind = o[0]
            if kind in ('fall', 'return'):
                reached += 1
                res = VNone if kind == 'fall' else o[2]
                if fi.is_generator:
                    res = o[1].ghost['$out']
                self._check_post(c, o[1], res, names)
            elif kind == 'raise':
                exc = o[2]
                if fi.is_generator and exc == 'StopIteration':
                    exc = 'RuntimeError'        # PEP 479
                self._check_raise(c, o[1], exc, names)
            else:
                raise Unsupported('%s outside loop' % kind)
        self.stats['paths'] += len(outs)
        # vacuity guard: some normal (or declared exceptional) exit must be reachable under the hypotheses
        exits = [o for o in outs if o[0] in ('fall', 'return')] or [o for o in outs if o[0] == 'raise']
        for n, o in enumerate(exits[:12]):
            self.obls.append(Obl('%s#exit-reachable[%d]' % (c.key, n), o[1].hyps(), BoolVal(False), 'V', (),
                                 meta={'expect': 'sat', 'group': c.key + '#exit-reachable'}, func=c.key))
        if not exits:
            self.obls.append(Obl('%s#exit-reachable[none]' % c.key, [], BoolVal(False), 'V', (),
                                 meta={'expect': 'sat', 'group': c.key + '#exit-reachable'}, func=c.key))

    def _measure(self, c, ctx):
        if not c.measure:
            return None
        return (self.spec.ev_expr(c.measure[0], ctx).z, c.measure[1])

    def _post_ctx(self, c, st, res, names):
        n = dict(names)
        n['result'] = res
        return Ctx(self, st, n, old=self.entry, old_names=self.entry_names, module=self.cur_fn.module)

    def _check_post(self, c, st, res, names):
        if c.result == 'E' and res.ty == 'obj':
            res = self.coerce(res, 'E', st)
        ctx = self._post_ctx(c, st, res, names)
        if not self.matches_result(res, c.result):
            self.oblige('%s#result-type(%s)' % (c.key, c.result), st, BoolVal(False), 'A',
                        meta={'got': res.ty})
            return
        for cl in c.ensures:
            if cl.kind == 'G':
                self.assume_clause(st, self.spec.clause(cl.text, ctx))
        for cl in c.ensures:
            if cl.kind == 'G':
                continue
            items = self.spec.clause(cl.text, ctx)
            goal = self.goal_of(items, st)
            if cl.carve:
                fid, hyp = cl.carve
                self.oblige('%s#%s[%s]' % (c.key, cl.label, fid), st, goal, 'K', cl.props, meta={'finding': fid})
                # the finding's hypothesis is an assumption (quantifiers in it are instantiated, not skolemised)
                st2 = st.fork()
                ctx2 = self._post_ctx(c, st2, res, names)
                self.assume_clause(st2, self.spec.clause(hyp, ctx2))
                for sub in _index_terms(goal):
                    self.touch(st2, sub)
                self.oblige('%s#%s[outside %s]' % (c.key, cl.label, fid), st2, goal, cl.kind, cl.props)
            else:
                self.oblige('%s#%s' % (c.key, cl.label), st, goal, cl.kind, cl.props)
        # a normal return while an exact `raises` condition holds contradicts the contract
        for exc, r in c.raises.items():
            if r.exact:
                w = self.spec.clause(r.when, ctx.in_old())
                self.oblige('%s#returns-only-if-not[%s]' % (c.key, exc), st, Not(self.goal_of(w)), r.kind, r.props)
        self._check_frame(c, st, names)

    def matches_result(self, res, ty):
        if ty == 'any':
            return True
        if res.ty == 'obj' and ty in ('tok', 'freshtok', 'E'):
            return True     # constructors verified on the object under construction
        return self.matches(res, ty) or (ty.endswith('?') and res.ty in ('none', 'opt'))

    def _check_raise(self, c, st, exc, names):
        ctx = self._post_ctx(c, st, VNone, names)
        if exc not in c.raises:
            self.oblige('%s#no-raise[%s]' % (c.key, exc), st, BoolVal(False), 'P' if c.props else 'A', c.props,
                        meta={'exception': exc})
            return
        r = c.raises[exc]
        if r.when is not None:
            w = self.spec.clause(r.when, ctx.in_old())
            self.oblige('%s#raises[%s]-only-when' % (c.key, exc), st, self.goal_of(w), r.kind, r.props)
        for cl in r.ensures:
            items = self.spec.clause(cl.text, ctx)
            self.oblige('%s#raises[%s].%s' % (c.key, exc, cl.label), st, self.goal_of(items, st), cl.kind, cl.props)
        self._check_frame(c, st, names)

    def _check_frame(self, c, st, names):
        allowed = set()
        for path in c.modifies:
            parts = path.split('.')
            v = names.get(parts[0])
            for fld in parts[1:-1]:
                if v is None or v.ty != 'obj':
                    break
                v = self.entry.heap[v.a['ref']].get(fld)
            if v is not None and v.ty == 'obj':
                allowed.add((v.a['ref'], parts[-1]))
        for ref, fields in self.entry.heap.items():
            for f, v0 in fields.items():
                if (ref, f) in allowed:
                    continue
                v1 = st.heap.get(ref, {}).get(f)
                if v1 is None or v1 is v0:
                    continue
                if v0.z is not None and v1.z is not None:
                    if v0.z.eq(v1.z):
                        continue
                    self.oblige('%s#frame[%s]' % (c.key, f), st, v1.z == v0.z, 'A')
                elif v0.ty == 'opt' and v1.ty == 'opt':
                    self.oblige('%s#frame[%s]' % (c.key, f), st, ops.eq(v0, v1), 'A')

    # ------------------------------------------------------------------ use of a contract at a call site
    def select_contract(self, qual, binding):
        cands = self.reg.contracts.get(qual)
        if not cands:
            return None
        for c in cands:
            if all(p in binding and self.matches(binding[p], t) for p, t in c.types.items()):
                return c
        raise Unsupported('no case of %s matches argument types %s' % (
            qual, {k: v.ty for k, v in binding.items()}))

    def bind_args(self, fi, args, kwargs, st, node=None, name=None):
        """python call binding against the real signature; defaults are read from the real AST"""
        a = (node or fi.node).args
        name = name or (fi.qual if fi is not None else '?')
        pos = [x.arg for x in a.posonlyargs + a.args]
        binding = {}
        if len(args) > len(pos) and not a.vararg:
            raise Unsupported('too many positional arguments for ' + name)
        for p, v in zip(pos, args):
            binding[p] = v
        if a.vararg:
            extra = args[len(pos):]
            if len(extra) == 1 and extra[0].ty == 'star':
                binding[a.vararg.arg] = extra[0].a['v']
            else:
                binding[a.vararg.arg] = VList(extra)
        allnames = set(pos) | {x.arg for x in a.kwonlyargs}
        extra_kw = {}
        for k, v in kwargs.items():
            if k in binding:
                raise Unsupported('duplicate argument ' + k)
            if k not in allnames:
                if a.kwarg is None:
                    raise Unsupported('unexpected keyword argument %s for %s' % (k, name))
                extra_kw[k] = v
            else:
                binding[k] = v
        if a.kwarg is not None:
            binding[a.kwarg.arg] = Val('kwargs', None, items=extra_kw)
        defaults = dict(zip(pos[len(pos) - len(a.defaults):], a.defaults))
        for x, d in zip(a.kwonlyargs, a.kw_defaults):
            if d is not None:
                defaults[x.arg] = d
        for p in pos + [x.arg for x in a.kwonlyargs]:
            if p not in binding:
                if p not in defaults:
                    raise Unsupported('missing argument %s for %s' % (p, name))
                binding[p] = self.default_value(defaults[p], fi or self.cur_fn)
        return binding

    def default_value(self, node, fi):
        if isinstance(node, ast.Constant):
            return lift(node.value)
        if isinstance(node, ast.UnaryOp) and isinstance(node.op, ast.USub) and isinstance(node.operand, ast.Constant):
            return lift(-node.operand.value)
        if isinstance(node, ast.Tuple) and not node.elts:
            return VConst(())
        if isinstance(node, ast.List) and not node.elts:
            return VList([])
        if isinstance(node, ast.Name):
            v = self.lookup_global(node.id, fi.module)
            if v is not None:
                return v
        if isinstance(node, ast.Attribute) and isinstance(node.value, ast.Name):
            base = self.lookup_global(node.value.id, fi.module)
            if base is not None and base.ty == 'cls':
                q = base.a['name'] + '.' + node.attr
                cm = q in self.repo.funcs and 'classmethod' in self.repo.funcs[q].decorators
                return Val('func', None, qual=q, boundcls=base if cm else None)
        if isinstance(node, ast.Lambda):
            return Val('func', None, lam=node, env={}, module=fi.module)
        raise Unsupported('default value ' + ast.dump(node))

    def apply_contract(self, c, binding, st, node=None):
        """-> outcomes [('val', st, v) | ('raise', st, exc)]"""
        self.stats['contracts_applied'] += 1
        for p_, t_ in c.types.items():
            if t_ == 'E' and p_ in binding and binding[p_].ty == 'obj':
                binding[p_] = self.coerce(binding[p_], 'E', st)
            if t_.startswith('seq[') and p_ in binding and binding[p_].ty != 'seq':
                binding[p_] = self._as_seq(binding[p_], t_[4:-1])
        site = '%s@L%s' % (self.cur.key if self.cur else '?', getattr(node, 'lineno', '?'))
        mod = c.qual.split('.')[0]
        pre_ctx = Ctx(self, st, binding, module=mod)
        for h in c.pre_hooks:
            h(self, st, binding)
        for cl in c.requires:
            items = self.spec.clause(cl.text, pre_ctx)
            self.oblige('%s.call(%s).pre.%s' % (site, c.key, cl.label), st, self.goal_of(items, st), 'A',
                        meta={'callee': c.key})
            self.assume_clause(st, items)
        # termination of recursion: lexicographic (measure, rank)
        if c.measure and self.cur is not None and self.cur.measure and st.ghost.get('$measure0') is not None:
            m0, r0 = st.ghost['$measure0']
            m1 = self.spec.ev_expr(c.measure[0], pre_ctx).z
            r1 = c.measure[1]
            goal = And(m1 >= 0, Or(m1 < m0, And(m1 == m0, BoolVal(r1 < r0))))
            self.oblige('%s.call(%s).decreases' % (site, c.key), st, goal, 'P' if 'C06' in self.cur.props else 'A',
                        ('C06',) if 'C06' in self.cur.props else ())
        pre = st.fork()
        outs = []
        for exc, r in c.raises.items():
            sr = st.fork()
            if r.when is not None:
                w = self.goal_of(self.spec.clause(r.when, Ctx(self, sr, binding, module=mod)))
                w = simplify(w)
                if is_false(w):
                    continue
                sr.assume(w)
                self.stats['feas_checks'] += 1
                if not quick_sat(sr.hyps(), self.feas_ms):
                    continue
            self._havoc_modifies(c, binding, sr)
            ctx_r = Ctx(self, sr, dict(binding, result=VNone), old=pre, old_names=binding, module=mod)
            for cl in r.ensures:
                self.assume_clause(sr, self.spec.clause(cl.text, ctx_r))
            outs.append(('raise', sr, exc))
        sn = st
        exact = [r for r in c.raises.values() if r.exact]
        for r in exact:
            w = self.goal_of(self.spec.clause(r.when, Ctx(self, sn, binding, module=mod)))
            sn.assume(simplify(Not(w)))
        if exact:
            self.stats['feas_checks'] += 1
            if not quick_sat(sn.hyps(), self.feas_ms):
                return outs
        self._havoc_modifies(c, binding, sn)
        res = self.fresh_val(c.result, 'r_' + c.qual.split('.')[-1].strip('_'), sn) if c.result != 'none' else VNone
        ctx_n = Ctx(self, sn, dict(binding, result=res), old=pre, old_names=binding, module=mod)
        for cl in c.ensures:
            if self._alias_clause(cl.text, ctx_n, sn, binding, res):
                continue
            if cl.carve:        # a clause with an open finding is only available under the finding's hypothesis
                hitems = self.spec.clause(cl.carve[1], ctx_n)
                if any(isinstance(h_, QBool) for h_ in hitems):
                    continue    # a quantified hypothesis cannot be used as the antecedent of an assumption: clause dropped
                gz = self.goal_of(self.spec.clause(cl.text, ctx_n))
                sn.assume(Implies(conj(hitems), gz))
                continue
            self.assume_clause(sn, self.spec.clause(cl.text, ctx_n))
        for h in c.hooks + self.reg.post_hooks:
            h(self, sn, dict(binding, result=res), pre)
        # vacuity guard: the callee's postcondition must not contradict the caller's state (strict: every site)
        self.obls.append(Obl('%s.call(%s).post-consistent' % (site, c.key), sn.hyps(), BoolVal(False), 'V', (),
                             meta={'expect': 'sat', 'strict': True, 'pre_hyps': len(pre.hyps())},
                             func=self.cur.key if self.cur else None))
        outs.append(('val', sn, res))
        return outs

    def _as_seq(self, v, el):
        """constant tuple / static list of element type el -> symbolic sequence value (or None)"""
        from .values import retype
        try:
            if v.ty == 'const' and isinstance(v.a['py'], (tuple, list)):
                v = VList([lift(x) for x in v.a['py']])
            if v.ty == 'tuple':
                v = VList(v.a['items'])
            if v.ty == 'list':
                return retype(v, 'seq[%s]' % el)
        except Unsupported:
            return None
        return None

    def coerce(self, v, ty, st):
        for h in self.reg.attr_hooks:
            r = h(self, 'coerce', (v, ty), st)
            if r is not None:
                return r
        raise Unsupported('cannot pass %s as %s' % (v.ty, ty))

    def _alias_clause(self, text, ctx, st, binding, res):
        """postcondition `a.b.f is x` (or `result is x`) over object references: performed as an assignment"""
        m = re.match(r'^\s*(\w+(?:\.\w+)*)\s+is\s+(\w+(?:\.\w+)*)\s*$', text)
        if not m or m.group(2) == 'None':
            return False
        try:
            rhs = self.spec.ev_expr(m.group(2), ctx)
        except Unsupported:
            return False
        if rhs.ty not in ('obj', 'E', 'node'):
            return False
        parts = m.group(1).split('.')
        if parts == ['result']:
            if res.ty == 'obj':
                res.a.clear()
                res.a.update(rhs.a)
            return True
        v = ctx.names.get(parts[0])
        for fld in parts[1:-1]:
            v = st.field(v, fld) if v is not None and v.ty == 'obj' else None
        if v is None or v.ty != 'obj':
            return False
        st.set_field(v, parts[-1], rhs)
        return True

    def _havoc_modifies(self, c, binding, st):
        for path in c.modifies:
            parts = path.split('.')
            v = binding.get(parts[0])
            for fld in parts[1:-1]:
                if v is None or v.ty != 'obj':
                    break
                v = st.field(v, fld)
            fld = parts[-1]
            if v is None or v.ty != 'obj':
                raise Unsupported('modifies path %s of %s' % (path, c.key))
            old = st.field(v, fld)
            st.set_field(v, fld, self.fresh_val(old.a['fty'], fld, st) if old.ty == 'unset' else like(old, fld))


def _index_terms(g):
    """integer terms used as sequence indices (seq.nth) inside a formula"""
    out, seen, stack = [], set(), [g]
    while stack:
        t = stack.pop()
        if t.get_id() in seen:
            continue
        seen.add(t.get_id())
        if z3.is_app(t):
            if t.decl().kind() == z3.Z3_OP_SEQ_NTH:
                out.append(t.arg(1))
            stack.extend(t.children())
    return out


def _split_types(s):
    out, depth, cur = [], 0, ''
    for ch in s:
        if ch == '[':
            depth += 1
        if ch == ']':
            depth -= 1
        if ch == ',' and depth == 0:
            out.append(cur.strip())
            cur = ''
        else:
            cur += ch
    if cur.strip():
        out.append(cur.strip())
    return out


def lift_global(py):
    if isinstance(py, dict) and '__enumcls__' in py:
        return VConst(py)
    if isinstance(py, tuple) and len(py) == 2 and py[0] == '__opaque__':
        return Val('opaque', None, what=py[1])
    return lift(py)


def _ev_expr(self, text, ctx):
    from .spec import parse_spec
    return self.ev(parse_spec(text), ctx)


SpecEval.ev_expr = _ev_expr
