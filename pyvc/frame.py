"""Frame / purity / determinism obligations for C17 (DESIGN 3.6): a conservative syntactic effect analysis over all
functions of the six modules.  No solver is needed; every site found must be covered by the committed allow-list
(with its justification), otherwise it is an undischarged obligation.

F1  no function stores to, or calls a mutating method on, a module-level object; no `global`/`nonlocal`;
    no stores to class attributes through `Cls.attr` / `type(self).attr` / `self.__class__.attr`
F2  a parameter with a mutable default is neither mutated, stored in a field, nor returned
F4  attribute stores on values that may alias a module-level object (Token.Empty)
F5  sources of nondeterminism: iteration over a set, hash(), id(), random/time/os/uuid, set.pop()
F7  memoising decorators (lru_cache, cache, cached_property, ...): results shared between calls are state that
    outlives one parse; a cached mutable result is aliased between trees
"""
import ast
import os
import re

MUTATORS = {'append', 'extend', 'insert', 'remove', 'pop', 'clear', 'reverse', 'sort', 'update', 'add', 'discard',
            'setdefault', 'popitem', '__setitem__', '__delitem__'}
NONDET_MODULES = {'random', 'time', 'os', 'uuid', 'secrets', 'datetime', 'threading', 'multiprocessing'}


class Site:
    def __init__(self, rule, module, func, line, what):
        self.rule, self.module, self.func, self.line, self.what = rule, module, func, line, what

    @property
    def key(self):
        return '%s:%s:%s:%s' % (self.rule, self.module, self.func, self.what)

    def __repr__(self):
        return '%s %s.%s line %d: %s' % (self.rule, self.module, self.func, self.line, self.what)


def module_level_names(tree):
    """names bound at module level and the kind of value (for mutability / set-ness)"""
    out = {}
    for n in tree.body:
        targets = []
        if isinstance(n, ast.Assign):
            targets = [t for t in n.targets if isinstance(t, ast.Name)]
            val = n.value
        elif isinstance(n, ast.AnnAssign) and isinstance(n.target, ast.Name) and n.value is not None:
            targets, val = [n.target], n.value
        else:
            continue
        kind = 'other'
        if isinstance(val, (ast.List, ast.ListComp)):
            kind = 'list'
        elif isinstance(val, (ast.Dict, ast.DictComp)):
            kind = 'dict'
        elif isinstance(val, (ast.Set, ast.SetComp)):
            kind = 'set'
        elif isinstance(val, ast.Call) and isinstance(val.func, ast.Name) and val.func.id in ('set', 'frozenset'):
            kind = 'set'
        elif isinstance(val, ast.Call) and isinstance(val.func, ast.Name) and val.func.id in ('list', 'dict'):
            kind = val.func.id
        elif isinstance(val, ast.BinOp) and isinstance(val.op, (ast.Sub, ast.BitOr, ast.BitAnd)):
            kind = 'set?'
        for t in targets:
            out[t.id] = kind
    return out


def local_names(fn):
    names = {a.arg for a in fn.args.args + fn.args.kwonlyargs + fn.args.posonlyargs}
    if fn.args.vararg:
        names.add(fn.args.vararg.arg)
    if fn.args.kwarg:
        names.add(fn.args.kwarg.arg)
    for n in ast.walk(fn):
        if isinstance(n, ast.Name) and isinstance(n.ctx, ast.Store):
            names.add(n.id)
        elif isinstance(n, (ast.FunctionDef, ast.ClassDef)) and n is not fn:
            names.add(n.name)
        elif isinstance(n, ast.ExceptHandler) and n.name:
            names.add(n.name)
    return names


def scan(repo):
    sites = []
    set_names = {}
    for m, tree in repo.trees.items():
        for k, v in module_level_names(tree).items():
            if v in ('set', 'set?'):
                set_names[k] = m
    # names imported from other modules keep their set-ness
    for m, tree in repo.trees.items():
        glob = module_level_names(tree)
        imported = {}
        for n in tree.body:
            if isinstance(n, ast.ImportFrom):
                for a in n.names:
                    imported[a.asname or a.name] = a.name
            elif isinstance(n, ast.Import):
                for a in n.names:
                    imported[(a.asname or a.name).split('.')[0]] = a.name
        for qual, fi in repo.funcs.items():
            if fi.module != m:
                continue
            fn = fi.node
            fname = qual.split('.', 1)[1]
            locs = local_names(fn)
            own = list(fi._own_nodes(fn))
            mutable_defaults = set()
            args = fn.args.args
            for a, d in zip(args[len(args) - len(fn.args.defaults):], fn.args.defaults):
                if isinstance(d, (ast.List, ast.Dict, ast.Set)):
                    mutable_defaults.add(a.arg)
            for d in fi.decorators:
                if re.search(r'cache|memo', d, re.I):
                    sites.append(Site('F7', m, fname, fn.lineno, 'memoising decorator @%s' % d))
            for n in own:
                if isinstance(n, (ast.Global, ast.Nonlocal)):
                    sites.append(Site('F1', m, fname, n.lineno, 'global/nonlocal ' + ','.join(n.names)))
                # stores / mutating calls on module-level objects
                if isinstance(n, ast.Call) and isinstance(n.func, ast.Attribute) and n.func.attr in MUTATORS:
                    base = n.func.value
                    if isinstance(base, ast.Name) and base.id not in locs and (base.id in glob or base.id in imported):
                        sites.append(Site('F1', m, fname, n.lineno, 'mutating call %s.%s()' % (base.id, n.func.attr)))
                    if isinstance(base, ast.Name) and base.id in mutable_defaults:
                        sites.append(Site('F2', m, fname, n.lineno, 'mutable default %s mutated' % base.id))
                if isinstance(n, (ast.Assign, ast.AugAssign)):
                    tgts = n.targets if isinstance(n, ast.Assign) else [n.target]
                    for t in tgts:
                        for tt in ast.walk(t):
                            if isinstance(tt, (ast.Attribute, ast.Subscript)) and isinstance(tt.ctx, ast.Store):
                                b = tt.value
                                if isinstance(b, ast.Name) and b.id not in locs and (b.id in glob or b.id in imported):
                                    sites.append(Site('F1', m, fname, n.lineno, 'store through module-level name %s' % b.id))
                                if isinstance(b, ast.Attribute) and isinstance(b.value, ast.Name) and \
                                        b.attr == '__class__':
                                    sites.append(Site('F1', m, fname, n.lineno, 'store to class attribute via __class__'))
                                if isinstance(b, ast.Call) and isinstance(b.func, ast.Name) and b.func.id == 'type':
                                    sites.append(Site('F1', m, fname, n.lineno, 'store to class attribute via type()'))
                                if isinstance(b, ast.Name) and b.id in mutable_defaults:
                                    sites.append(Site('F2', m, fname, n.lineno, 'store into mutable default %s' % b.id))
                        if isinstance(n, ast.Assign) and isinstance(n.value, ast.Name) and n.value.id in mutable_defaults \
                                and any(isinstance(t, ast.Attribute) for t in tgts):
                            sites.append(Site('F2', m, fname, n.lineno, 'mutable default %s stored in a field' % n.value.id))
                if isinstance(n, ast.Return) and isinstance(n.value, ast.Name) and n.value.id in mutable_defaults:
                    sites.append(Site('F2', m, fname, n.lineno, 'mutable default %s returned' % n.value.id))
                # nondeterminism
                if isinstance(n, (ast.For, ast.comprehension)):
                    it = n.iter
                    if isinstance(it, ast.Name) and it.id not in locs and it.id in set_names:
                        sites.append(Site('F5', m, fname, getattr(n, 'lineno', it.lineno), 'iteration over the set %s' % it.id))
                    if isinstance(it, (ast.Set, ast.SetComp)) or (isinstance(it, ast.Call) and isinstance(it.func, ast.Name)
                                                                  and it.func.id in ('set', 'frozenset')):
                        sites.append(Site('F5', m, fname, it.lineno, 'iteration over a set expression'))
                if isinstance(n, ast.Call) and isinstance(n.func, ast.Name) and n.func.id in ('hash', 'id') and \
                        n.func.id not in locs:
                    sites.append(Site('F5', m, fname, n.lineno, '%s()' % n.func.id))
                if isinstance(n, ast.Attribute) and isinstance(n.value, ast.Name) and \
                        imported.get(n.value.id, n.value.id).split('.')[0] in NONDET_MODULES and n.value.id not in locs:
                    sites.append(Site('F5', m, fname, n.lineno, 'use of module %s' % imported.get(n.value.id, n.value.id)))
                if isinstance(n, ast.Call) and isinstance(n.func, ast.Attribute) and n.func.attr == 'pop' and \
                        isinstance(n.func.value, ast.Name) and n.func.value.id in set_names and not n.args:
                    sites.append(Site('F5', m, fname, n.lineno, 'set.pop()'))
        # class-level mutable attributes
        for cq, info in repo.classes.items():
            if info['module'] != m:
                continue
            for st in info['node'].body:
                if isinstance(st, ast.Assign) and isinstance(st.value, (ast.List, ast.Dict, ast.Set)):
                    for t in st.targets:
                        if isinstance(t, ast.Name):
                            sites.append(Site('F3', m, cq.split('.', 1)[1], st.lineno, 'mutable class attribute %s' % t.id))
        # module-level statements other than definitions/assignments/imports (executed once, at import)
        for n in tree.body:
            if isinstance(n, ast.Expr) and isinstance(n.value, ast.Call):
                sites.append(Site('F6', m, '<module>', n.lineno, 'call at import time: ' + ast.unparse(n.value)[:60]))
            if isinstance(n, ast.Assign) and any(isinstance(t, ast.Attribute) for t in n.targets):
                sites.append(Site('F6', m, '<module>', n.lineno, 'attribute store at import time: ' + ast.unparse(n)[:60]))
    return sites
