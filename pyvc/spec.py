"""Specification-expression evaluator: contract clauses are Python expressions (plus `==>`, `<==>`, old(), result,
forall(k, lo, hi, body)) evaluated to z3 terms over the symbolic state.  Total: no forks, no exceptions."""
import ast

import z3
from z3 import IntVal, BoolVal, Length, If, And, Or, Not, Implies, is_true, simplify, IntSort

from . import ops
from .sorts import Tok, Str, pystr, zmin, zmax, NONE_CAT
from .values import (Val, VI, VB, VS, VNone, VTok, VOpt, VTuple, VSeq, VList, VE, lift, strz, Unsupported, fresh,
                     elem_val)

_cache = {}


def _split_top(text, tok):
    depth = 0
    i = 0
    instr = None
    while i < len(text):
        c = text[i]
        if instr:
            if c == '\\':
                i += 2
                continue
            if c == instr:
                instr = None
        elif c in '\'"':
            instr = c
        elif c in '([{':
            depth += 1
        elif c in ')]}':
            depth -= 1
        elif depth == 0 and text.startswith(tok, i) and (tok != '==>' or not (i > 0 and text[i - 1] == '<')):
            return text[:i], text[i + len(tok):]
        i += 1
    return None


def _split_commas(text):
    parts, depth, cur, instr, i = [], 0, '', None, 0
    while i < len(text):
        c = text[i]
        if instr:
            cur += c
            if c == '\\' and i + 1 < len(text):
                cur += text[i + 1]
                i += 2
                continue
            if c == instr:
                instr = None
        elif c in '\'"':
            instr = c
            cur += c
        elif c in '([{':
            depth += 1
            cur += c
        elif c in ')]}':
            depth -= 1
            cur += c
        elif c == ',' and depth == 0:
            parts.append(cur)
            cur = ''
        else:
            cur += c
        i += 1
    parts.append(cur)
    return parts


def desugar(text):
    """`a ==> b` and `a <==> b` (lowest precedence, right associative, also inside parentheses and call arguments)
    -> implies(a, b) / iff(a, b)"""
    out, i, instr = '', 0, None
    # first rewrite inside every bracketed group
    while i < len(text):
        c = text[i]
        if instr:
            out += c
            if c == '\\' and i + 1 < len(text):
                out += text[i + 1]
                i += 2
                continue
            if c == instr:
                instr = None
            i += 1
            continue
        if c in '\'"':
            instr = c
            out += c
            i += 1
            continue
        if c in '([{':
            close = {'(': ')', '[': ']', '{': '}'}[c]
            depth, k, ins = 1, i + 1, None
            while k < len(text) and depth:
                ch = text[k]
                if ins:
                    if ch == '\\':
                        k += 1
                    elif ch == ins:
                        ins = None
                elif ch in '\'"':
                    ins = ch
                elif ch in '([{':
                    depth += 1
                elif ch in ')]}':
                    depth -= 1
                k += 1
            inner = text[i + 1:k - 1]
            out += c + ','.join(desugar(p) for p in _split_commas(inner)) + close
            i = k
            continue
        out += c
        i += 1
    sp = _split_top(out, '<==>')
    if sp:
        return 'iff(%s, %s)' % (desugar(sp[0]), desugar(sp[1]))
    sp = _split_top(out, '==>')
    if sp:
        return 'implies(%s, %s)' % (sp[0].strip(), desugar(sp[1]))
    return out


def parse_spec(text):
    """python expression with `a ==> b` (right assoc., lowest precedence) and `a <==> b`"""
    if text in _cache:
        return _cache[text]
    node = ast.parse(desugar(text.strip()).strip(), mode='eval').body
    _cache[text] = node
    return node


class Ctx:
    """evaluation context of a specification expression"""

    def __init__(self, engine, st, names=None, old=None, old_names=None, module=None, use_locals=False):
        self.engine, self.st, self.names = engine, st, names or {}
        self.old, self.old_names = old, old_names
        self.module = module
        self.use_locals = use_locals

    def with_names(self, extra):
        n = dict(self.names)
        n.update(extra)
        c = Ctx(self.engine, self.st, n, self.old, self.old_names, self.module, self.use_locals)
        return c

    def in_old(self):
        if self.old is None:
            return self
        return Ctx(self.engine, self.old, self.old_names if self.old_names is not None else self.names, None, None,
                   self.module, False)


class QBool:
    """a (possibly guarded) universally quantified clause: forall k in [lo,hi): body(k)"""

    def __init__(self, guard, lo, hi, fn):
        self.guard, self.lo, self.hi, self.fn = guard, lo, hi, fn

    def instance(self, k):
        return Implies(And(self.guard, self.lo <= k, k < self.hi), self.fn(k))


def boolz(v):
    if v.ty == 'bool':
        return v.z
    return ops.truth(v)


class SpecEval:
    def __init__(self, engine):
        self.engine = engine

    def clause(self, text, ctx):
        """-> list of z3 Bool / QBool"""
        v = self.ev(parse_spec(text), ctx)
        return self.flatten(v)

    def flatten(self, v):
        if v.ty == 'qbool':
            return list(v.a['qs'])
        return [boolz(v)]

    def ev(self, n, ctx):
        m = getattr(self, 'e_' + type(n).__name__, None)
        if m is None:
            raise Unsupported('spec syntax ' + type(n).__name__)
        return m(n, ctx)

    def e_Constant(self, n, ctx):
        return lift(n.value)

    def e_Name(self, n, ctx):
        if n.id in ctx.names:
            return ctx.names[n.id]
        if ctx.use_locals and n.id in ctx.st.env:
            return ctx.st.env[n.id]
        if n.id in ctx.st.ghost and isinstance(ctx.st.ghost[n.id], Val):
            return ctx.st.ghost[n.id]
        if n.id == '_items' and ctx.st.ghost.get('_items') is not None:
            return ctx.st.ghost['_items']
        if n.id == '_out' and ctx.st.ghost.get('$out') is not None:
            return ctx.st.ghost['$out']
        if n.id == 'True':
            return VB(True)
        if n.id == 'False':
            return VB(False)
        v = self.engine.lookup_global(n.id, ctx.module)
        if v is not None:
            return v
        raise Unsupported('spec name %s' % n.id)

    def e_Attribute(self, n, ctx):
        v = self.ev(n.value, ctx)
        return self.attr(v, n.attr, ctx)

    def attr(self, v, a, ctx):
        if v.ty == 'obj':
            f = ctx.st.heap[v.a['ref']]
            if a in f:
                return f[a]
            raise Unsupported('spec field %s of %s' % (a, v.a['cls']))
        if v.ty == 'tok':
            if a == 'text':
                return VS(Tok.text(v.z))
            if a in ('position', 'pos'):
                return VI(Tok.pos(v.z))
            if a == 'cat':
                return VI(Tok.cat(v.z))
            if a == 'category':
                return VOpt(Tok.cat(v.z) == NONE_CAT, VI(Tok.cat(v.z)))
        if v.ty == 'opt':
            return self.attr(v.a['some'], a, ctx)
        if v.ty == 'none':      # total: an unspecified value of the attribute's type
            if a == 'text':
                return VS(fresh('undef', Str))
            if a in ('position', 'pos', 'cat'):
                return VI(fresh('undef', IntSort()))
            if a == 'category':
                return VNone
        if v.ty == 'const' and isinstance(v.a['py'], dict) and '__enumcls__' in v.a['py']:
            return VI(v.a['py']['members'][a])
        if v.ty == 'slice':
            return v.a[{'start': 'lo', 'stop': 'hi'}[a]] or VNone
        if v.ty == 'cls':
            return lift(self.engine.repo.class_attr(v.a['name'], a))
        raise Unsupported('spec attribute %s on %s' % (a, v.ty))

    def e_BoolOp(self, n, ctx):
        vals = [self.ev(x, ctx) for x in n.values]
        if any(v.ty == 'qbool' for v in vals):
            if not isinstance(n.op, ast.And):
                raise Unsupported('forall under or')
            qs = []
            for v in vals:
                qs += self.flatten(v)
            return Val('qbool', None, qs=qs)
        zs = [boolz(v) for v in vals]
        return VB(And(*zs) if isinstance(n.op, ast.And) else Or(*zs))

    def e_UnaryOp(self, n, ctx):
        v = self.ev(n.operand, ctx)
        if isinstance(n.op, ast.Not):
            return VB(Not(boolz(v)))
        if isinstance(n.op, ast.USub):
            return VI(-v.z)
        raise Unsupported('spec unary')

    def e_BinOp(self, n, ctx):
        a, b = self.ev(n.left, ctx), self.ev(n.right, ctx)
        op = {ast.Add: '+', ast.Sub: '-', ast.Mult: '*'}.get(type(n.op))
        if op is None:
            raise Unsupported('spec binop')
        if op == '+' and a.ty == 'tok' and ops.is_strlike(b):
            return VS(z3.Concat(strz(a), strz(b)))
        if op == '+' and a.ty == 'str' and b.ty == 'tok':
            return VS(z3.Concat(strz(a), strz(b)))
        return ops.arith(op, a, b, None)

    _cmp = {ast.Eq: '==', ast.NotEq: '!=', ast.Lt: '<', ast.LtE: '<=', ast.Gt: '>', ast.GtE: '>=', ast.Is: 'is',
            ast.IsNot: 'is not', ast.In: 'in', ast.NotIn: 'not in'}

    def e_Compare(self, n, ctx):
        left = self.ev(n.left, ctx)
        zs = []
        for op, c in zip(n.ops, n.comparators):
            right = self.ev(c, ctx)
            zs.append(self.cmp(self._cmp[type(op)], left, right).z)
            left = right
        return VB(And(*zs) if len(zs) > 1 else zs[0])

    def cmp(self, op, a, b):
        if op in ('==', '!=') and a.ty == 'tok' and b.ty == 'tok':
            z = a.z == b.z          # specification equality on tokens is structural (text, pos, cat)
            return VB(z if op == '==' else Not(z))
        if op in ('==', '!=') and a.ty == 'seq' and b.ty == 'seq':
            z = a.z == b.z
            return VB(z if op == '==' else Not(z))
        if op in ('==', '!=') and a.ty == b.ty and a.ty in ('E', 'node', 'item'):
            z = a.z == b.z          # reference identity in specifications
            return VB(z if op == '==' else Not(z))
        if op in ('==', '!=') and a.ty == 'opt' and b.ty in ('opt', 'tok', 'item', 'node', 'E'):
            na, sa = ops.opt_parts(a)
            nb, sb = ops.opt_parts(b)
            z = Or(And(na, nb), And(Not(na), Not(nb), self.cmp('==', sa, sb).z))
            return VB(z if op == '==' else Not(z))
        if op in ('==', '!=') and b.ty == 'opt' and a.ty in ('tok', 'item', 'node', 'E'):
            return self.cmp(op, b, a)
        return ops.compare(op, a, b, None)

    def e_IfExp(self, n, ctx):
        c = boolz(self.ev(n.test, ctx))
        a, b = self.ev(n.body, ctx), self.ev(n.orelse, ctx)
        return self.ite(c, a, b)

    def ite(self, c, a, b):
        if a.ty == b.ty and a.ty in ('int', 'bool', 'str', 'tok', 'E', 'node', 'item'):
            return Val(a.ty, If(c, a.z, b.z), **a.a)
        if a.ty == 'seq' and b.ty == 'seq':
            return VSeq(If(c, a.z, b.z), a.a['elem'])
        if a.ty in ('none', 'opt') or b.ty in ('none', 'opt'):
            na, sa = ops.opt_parts(a)
            nb, sb = ops.opt_parts(b)
            if sa is None and sb is None:
                return VNone
            if sa is None:
                return Val('opt', None, isnone=simplify(If(c, True, nb)), some=sb)
            if sb is None:
                return Val('opt', None, isnone=simplify(If(c, na, True)), some=sa)
            return Val('opt', None, isnone=simplify(If(c, na, nb)), some=self.ite(c, sa, sb))
        if a.ty == 'str' and b.ty == 'tok' or a.ty == 'tok' and b.ty == 'str':
            return VS(If(c, strz(a), strz(b)))
        raise Unsupported('spec if-else between %s and %s' % (a.ty, b.ty))

    def e_Subscript(self, n, ctx):
        v = self.ev(n.value, ctx)
        if isinstance(n.slice, ast.Slice):
            lo = self.ev(n.slice.lower, ctx) if n.slice.lower else None
            hi = self.ev(n.slice.upper, ctx) if n.slice.upper else None
            if v.ty == 'tok':
                v = VS(strz(v))
            if v.ty == 'list':
                from .values import retype
                if all(x.ty == 'E' for x in v.a['items']):
                    v = retype(v, 'seq[E]')
            return ops.slice_of(v, Val('slice', None, lo=lo, hi=hi, step=None), None)
        k = self.ev(n.slice, ctx)
        if v.ty == 'seq':
            self.engine.touch(ctx.st, k.z)
            return elem_val(v.z[k.z], v.a['elem'])      # raw nth: unspecified outside the range
        if v.ty == 'tok':
            v = VS(strz(v))
        return ops.index(v, k, None)

    def e_Tuple(self, n, ctx):
        return VTuple([self.ev(x, ctx) for x in n.elts])

    def e_Call(self, n, ctx):
        if not isinstance(n.func, ast.Name):
            if isinstance(n.func, ast.Attribute):
                recv = self.ev(n.func.value, ctx)
                args = [self.ev(a, ctx) for a in n.args]
                return self.method(recv, n.func.attr, args, ctx)
            raise Unsupported('spec call form')
        f = n.func.id
        if f == 'old':
            return self.ev(n.args[0], ctx.in_old())
        if f == 'forall':
            var = n.args[0].id
            lo = self.ev(n.args[1], ctx).z
            hi = self.ev(n.args[2], ctx).z
            body = n.args[3]

            def fn(k, body=body, ctx=ctx, var=var):
                self.engine.touch(ctx.st, k, instantiate=False)
                return boolz(self.ev(body, ctx.with_names({var: VI(k)})))
            return Val('qbool', None, qs=[QBool(BoolVal(True), lo, hi, fn)])
        args = [self.ev(a, ctx) for a in n.args]
        if f == 'implies':
            a, b = args
            if b.ty == 'qbool':
                g = boolz(a)
                return Val('qbool', None, qs=[QBool(And(g, q.guard), q.lo, q.hi, q.fn) if isinstance(q, QBool)
                                              else Implies(g, q) for q in b.a['qs']])
            return VB(Implies(boolz(a), boolz(b)))
        if f == 'iff':
            return VB(boolz(args[0]) == boolz(args[1]))
        if f == 'len':
            return ops.length(args[0])
        if f == 'min':
            return VI(zmin(args[0].z, args[1].z))
        if f == 'max':
            return VI(zmax(args[0].z, args[1].z))
        if f == 'bool' or f == 'truthy':
            return VB(ops.truth(args[0]))
        if f == 'str':
            return VS(ops.to_str(args[0]))
        if f == 'isnone':
            return VB(ops.opt_parts(args[0])[0])
        if f == 'some':
            sm = ops.opt_parts(args[0])[1]
            return sm if sm is not None else VI(fresh('undef', IntSort()))
        if f == 'fresh':
            fr = args[0].a.get('fresh', False)
            return VB(fr if not isinstance(fr, bool) else BoolVal(fr))
        if f == 'inv':
            return VB(self.engine.inv_of(args[0], ctx))
        if f in self.engine.reg.specfuns:
            return self.engine.reg.specfuns[f](ctx, *args)
        raise Unsupported('spec function ' + f)

    def method(self, recv, name, args, ctx):
        if ops.is_strlike(recv):
            s = strz(recv)
            if name == 'startswith':
                return VB(z3.PrefixOf(strz(args[0]), s))
            if name == 'endswith':
                return VB(z3.SuffixOf(strz(args[0]), s))
            if name == 'isspace':
                return VB(ops.isspace_z(s))
            if name == 'strip':
                return VS(ops.strip_z(s))
        raise Unsupported('spec method %s on %s' % (name, recv.ty))
