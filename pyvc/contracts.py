"""Contract data structures (the sidecar files under /verif/contracts build these)."""


class Clause:
    __slots__ = ('label', 'text', 'kind', 'props', 'carve')

    def __init__(self, label, text, kind='A', props=(), carve=None):
        self.label, self.text, self.kind, self.props = label, text, kind, tuple(props)
        self.carve = carve      # (finding id, hypothesis text): the clause is known to fail outside the hypothesis

    def outside(self, finding, hypothesis):
        """known finding: the clause is proved under `hypothesis`; its unrestricted form is tracked as the finding"""
        return Clause(self.label, self.text, self.kind, self.props, (finding, hypothesis))

    def __repr__(self):
        return '%s:%s' % (self.label, self.text)


def P(props, label, text):
    """a clause that is a conjunct of one or more listed properties"""
    if isinstance(props, str):
        props = [props]
    return Clause(label, text, 'P', props)


def G(label, text):
    """ghost definition: fixes the value of a ghost predicate on the *fresh* result of the function.  It is assumed when
    the body is verified and at call sites (a definitional extension; sound because the result did not exist before)"""
    return Clause(label, text, 'G')


def A(label, text):
    """auxiliary clause (scaffolding: invariants, callee preconditions, bookkeeping)"""
    return Clause(label, text, 'A')


def _clauses(xs):
    out = []
    for x in xs or []:
        if isinstance(x, Clause):
            out.append(x)
        elif isinstance(x, tuple):
            out.append(Clause(x[0], x[1]))
        else:
            out.append(Clause('c%d' % len(out), x))
    return out


class Raises:
    def __init__(self, when=None, ensures=(), exact=True, kind='A', props=()):
        self.when = when          # condition over the pre-state; None = may be raised
        self.exact = exact and when is not None     # raised iff `when`
        self.ensures = _clauses(ensures)
        self.kind, self.props = kind, tuple(props)


class Loop:
    def __init__(self, invariant=(), decreases=None, modifies=None, ghost=None):
        self.invariant = _clauses(invariant)
        self.decreases = decreases
        self.modifies = modifies    # extra heap paths / locals havocked (default: syntactic)
        self.ghost = ghost or {}


class Contract:
    def __init__(self, qual, types=None, result='none', requires=(), ensures=(), raises=None, modifies=(),
                 loops=None, measure=None, hooks=(), case=None, pre_hooks=(), generator=False, props=(),
                 trusted=False, note='', init_hooks=(), ghosts=None, pure=False):
        self.qual = qual
        self.types = types or {}           # param name -> type string
        self.result = result
        self.requires = _clauses(requires)
        self.ensures = _clauses(ensures)
        self.raises = raises or {}         # exception name -> Raises
        self.modifies = list(modifies)
        self.loops = loops or {}
        self.measure = measure             # (spec expr, rank)
        self.hooks = list(hooks)           # engine lemma instances added after the postcondition is assumed
        self.pre_hooks = list(pre_hooks)
        self.init_hooks = list(init_hooks)  # run on the initial state when the body is verified
        self.case = case
        self.generator = generator
        self.props = tuple(props)
        self.trusted = trusted             # contract assumed, body not verified (must be listed in evidence)
        self.note = note
        self.ghosts = ghosts or {}
        self.pure = pure

    @property
    def key(self):
        return self.qual + ('[%s]' % self.case if self.case else '')


class ClassView:
    """abstract view of a mutable class: ghost/abstract fields with types and a representation invariant"""

    def __init__(self, qual, short, fields, inv=(), truth=None, repmap=None):
        self.qual, self.short, self.fields = qual, short, dict(fields)
        self.inv = _clauses(inv)
        self.truth = truth        # None: always truthy; else spec expr
        self.repmap = repmap


class Registry:
    def __init__(self):
        self.contracts = {}    # qual -> [Contract]
        self.views = {}        # short -> ClassView
        self.views_by_qual = {}
        self.specfuns = {}     # name -> callable(ctx, *vals) -> Val
        self.inline = set()    # quals executed by inlining their real body at call sites
        self.ctors = {}        # class qual -> handler(engine, st, args, kwargs, node) -> outcomes
        self.call_hooks = []   # callables(engine, node, st) -> outcomes | None   (domain-specific call forms)
        self.attr_hooks = []
        self.post_hooks = []   # callables(engine, st, binding, pre) after any contract has been applied at a call site
        self.entry_hooks = []  # callables(engine, st, names) at function entry (after requires)
        self.loop_hooks = []   # callables(engine, st) at a loop head (after havoc, before the invariant is assumed)

    def add(self, c):
        self.contracts.setdefault(c.qual, []).append(c)
        return c

    def view(self, v, default=True):
        self.views[v.short] = v
        if default or v.qual not in self.views_by_qual:
            self.views_by_qual[v.qual] = v
        return v

    def specfun(self, name):
        def deco(f):
            self.specfuns[name] = f
            return f
        return deco

    def all_contracts(self):
        for lst in self.contracts.values():
            for c in lst:
                yield c
