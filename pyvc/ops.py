"""Operations on symbolic values (shared by the code executor and the specification evaluator).

Partial operations report their definedness through a guard list `g`: entries (ok_condition, exception name).
The code executor turns each guard into a fork (normal path / raise path); the specification evaluator passes
g=None (specification expressions are total, out-of-domain values are unspecified).
"""
import z3
from z3 import (IntVal, BoolVal, Length, Concat, Unit, Empty, If, And, Or, Not, Implies, SubSeq, PrefixOf, SuffixOf,
                Contains, IndexOf, Function, IntSort, BoolSort, is_true, is_false, simplify)

from .sorts import Str, Tok, TokSeq, E, ESeq, pystr, pyslice, norm_index, seqsort, NONE_CAT, conj
from .values import (Val, VI, VB, VS, VNone, VTok, VOpt, VTuple, VSeq, VList, VObj, VConst, VE, lift, strz, elem_val,
                     elem_z, Unsupported, fresh)
from .loader import PySet

# uninterpreted helpers for str methods that the solvers cannot reason about structurally
str_isspace = Function('str_isspace', Str, BoolSort())
str_strip = Function('str_strip', Str, Str)
str_lstrip = Function('str_lstrip', Str, Str)
str_rstrip = Function('str_rstrip', Str, Str)
int2str = Function('int2str', IntSort(), Str)
ser = Function('ser', E, Str)            # serialisation of a published expression (str(e))


def strip_z(s, which='strip'):
    """str.strip()/lstrip()/rstrip() without arguments: computed on constants, uninterpreted otherwise"""
    from .smt import pyval
    v = pyval(simplify(s))
    if isinstance(v, list) and all(isinstance(c, int) for c in v):
        return pystr(getattr(''.join(chr(c) for c in v), which)())
    return {'strip': str_strip, 'lstrip': str_lstrip, 'rstrip': str_rstrip}[which](s)


def isspace_z(s):
    """str.isspace(): False when a literal piece of a concatenation has a non-blank character, computed on constants"""
    from .smt import pyval
    z = simplify(s)
    v = pyval(z)
    if isinstance(v, list) and all(isinstance(c, int) for c in v):
        return BoolVal(''.join(chr(c) for c in v).isspace())
    if z3.is_app(z) and z.decl().kind() == z3.Z3_OP_SEQ_CONCAT:
        for c in z.children():
            cv = pyval(c)
            if isinstance(cv, list) and cv and all(isinstance(x, int) for x in cv) and \
                    not ''.join(chr(x) for x in cv).isspace():
                return BoolVal(False)
    return str_isspace(s)


def guard(g, ok, exc):
    if g is not None:
        ok = simplify(ok) if not isinstance(ok, bool) else BoolVal(ok)
        if not is_true(ok):
            g.append((ok, exc))


def is_strlike(v):
    return v.ty in ('str', 'tok')


def truth(v):
    t = v.ty
    if t == 'bool':
        return v.z
    if t == 'int':
        return v.z != 0
    if t == 'str':
        return Length(v.z) > 0
    if t == 'tok':
        return Length(Tok.text(v.z)) > 0
    if t == 'none':
        return BoolVal(False)
    if t == 'opt':
        return And(Not(v.a['isnone']), truth(v.a['some']))
    if t == 'seq':
        return Length(v.z) > 0
    if t == 'list':
        return BoolVal(len(v.a['items']) > 0)
    if t == 'tuple':
        return BoolVal(len(v.a['items']) > 0)
    if t == 'const':
        return BoolVal(bool(v.a['py']))
    if t in ('func', 'cls'):
        return BoolVal(True)
    if t == 'obj':
        tr = v.a.get('truth')
        if tr is not None:
            return tr
        raise Unsupported('truthiness of object of class %s' % v.a['cls'])
    raise Unsupported('truthiness of ' + t)


def opt_parts(v):
    """(isnone, some) of any value seen as optional"""
    if v.ty == 'none':
        return BoolVal(True), None
    if v.ty == 'opt':
        return v.a['isnone'], v.a['some']
    return BoolVal(False), v


def eq(a, b):
    """python == as a z3 Bool (structural / textual where the code's __eq__ is textual)"""
    if a.ty == 'none' or b.ty == 'none':
        na, _ = opt_parts(a)
        nb, _ = opt_parts(b)
        return And(na, nb)
    if a.ty == 'opt' or b.ty == 'opt':
        na, sa = opt_parts(a)
        nb, sb = opt_parts(b)
        return Or(And(na, nb), And(Not(na), Not(nb), eq(sa, sb)))
    if is_strlike(a) and is_strlike(b):
        return strz(a) == strz(b)          # Token.__eq__ compares text only
    if a.ty == 'int' and b.ty == 'int':
        return a.z == b.z
    if a.ty == 'bool' and b.ty == 'bool':
        return a.z == b.z
    if a.ty == 'bool' and b.ty == 'int':
        return If(a.z, 1, 0) == b.z
    if a.ty == 'int' and b.ty == 'bool':
        return a.z == If(b.z, 1, 0)
    if a.ty == 'E' and b.ty == 'E':
        return ser(a.z) == ser(b.z)        # TexExpr.__eq__ is textual
    if a.ty == 'E' and is_strlike(b):
        return ser(a.z) == strz(b)
    if is_strlike(a) and b.ty == 'E':
        return strz(a) == ser(b.z)
    if a.ty == 'seq' and b.ty == 'seq' and a.a['elem'] == b.a['elem'] and a.a['elem'] != 'E':
        return a.z == b.z
    if (a.ty in ('seq', 'list') and is_strlike(b)) or (b.ty in ('seq', 'list') and is_strlike(a)):
        return BoolVal(False)       # a list never equals a str
    if a.ty == 'tuple' and b.ty == 'tuple':
        if len(a.a['items']) != len(b.a['items']):
            return BoolVal(False)
        return conj([eq(x, y) for x, y in zip(a.a['items'], b.a['items'])])
    if a.ty == 'const' and b.ty == 'const':
        return BoolVal(a.a['py'] == b.a['py'])
    if a.ty == 'const' and b.ty == 'tuple':
        return eq(const_to_tuple(a), b)
    if a.ty == 'tuple' and b.ty == 'const':
        return eq(a, const_to_tuple(b))
    if (a.ty in ('int', 'bool') and is_strlike(b)) or (is_strlike(a) and b.ty in ('int', 'bool')):
        return BoolVal(False)
    if a.ty == 'obj' and b.ty == 'obj':
        return BoolVal(a.a['ref'] == b.a['ref'])
    raise Unsupported('== between %s and %s' % (a.ty, b.ty))


def const_to_tuple(c):
    py = c.a['py']
    if isinstance(py, (tuple, list)):
        return VTuple([lift(x) for x in py])
    raise Unsupported('const as tuple')


def identical(a, b):
    """python `is`"""
    if a.ty == 'none' or b.ty == 'none':
        na, _ = opt_parts(a)
        nb, _ = opt_parts(b)
        return And(na, nb)
    if a.ty == 'E' and b.ty == 'E':
        return a.z == b.z
    if a.ty == 'obj' and b.ty == 'obj':
        return BoolVal(a.a['ref'] == b.a['ref'])
    if a.ty == 'opt' or b.ty == 'opt':
        na, sa = opt_parts(a)
        nb, sb = opt_parts(b)
        return Or(And(na, nb), And(Not(na), Not(nb), identical(sa, sb)))
    raise Unsupported('`is` between %s and %s' % (a.ty, b.ty))


def contains(a, b, g=None):
    """python `a in b`"""
    if b.ty == 'const':
        py = b.a['py']
        if isinstance(py, str) and is_strlike(a):
            return Contains(pystr(py), strz(a))
        if isinstance(py, dict) and '__enumcls__' in py:
            items = list(py['members'].values())
        elif isinstance(py, dict):
            items = list(py.keys())
        else:
            items = list(py)
        return disj([eq(a, lift(x)) for x in items])
    if b.ty in ('tuple', 'list'):
        return disj([eq(a, x) for x in b.a['items']])
    if b.ty == 'dict':
        return disj([eq(a, k) for k, _ in b.a['items']])
    if is_strlike(b) and is_strlike(a):
        return Contains(strz(b), strz(a))
    if b.ty == 'seq':
        el = b.a['elem']
        if el in ('int', 'tok') and a.ty == el:
            if el == 'tok':
                raise Unsupported('token in seq[tok] (textual)')
            return Contains(b.z, Unit(a.z))
        if el == 'str' and is_strlike(a):
            return Contains(b.z, Unit(strz(a)))
    raise Unsupported('%s in %s' % (a.ty, b.ty))


def disj(xs):
    xs = [x for x in xs if not is_false(x)]
    if not xs:
        return BoolVal(False)
    for x in xs:
        if is_true(x):
            return BoolVal(True)
    return Or(*xs) if len(xs) > 1 else xs[0]


def compare(op, a, b, g=None):
    if op == '==':
        return VB(eq(a, b))
    if op == '!=':
        return VB(Not(eq(a, b)))
    if op == 'is':
        return VB(identical(a, b))
    if op == 'is not':
        return VB(Not(identical(a, b)))
    if op == 'in':
        return VB(contains(a, b, g))
    if op == 'not in':
        return VB(Not(contains(a, b, g)))
    if a.ty == 'bool':
        a = VI(If(a.z, 1, 0))
    if b.ty == 'bool':
        b = VI(If(b.z, 1, 0))
    if a.ty == 'int' and b.ty == 'int':
        f = {'<': lambda x, y: x < y, '<=': lambda x, y: x <= y, '>': lambda x, y: x > y, '>=': lambda x, y: x >= y}[op]
        return VB(f(a.z, b.z))
    if a.ty in ('none', 'opt') or b.ty in ('none', 'opt'):
        # ordering against None raises TypeError in Python 3
        na, sa = opt_parts(a)
        nb, sb = opt_parts(b)
        guard(g, And(Not(na), Not(nb)), 'TypeError')
        if sa is None or sb is None:
            return VB(fresh('undef', BoolSort()))
        return compare(op, sa, sb, g)
    raise Unsupported('%s between %s and %s' % (op, a.ty, b.ty))


def length(v, g=None):
    if v.ty in ('str', 'tok'):
        return VI(Length(strz(v)))
    if v.ty == 'seq':
        return VI(Length(v.z))
    if v.ty in ('list', 'tuple'):
        return VI(len(v.a['items']))
    if v.ty == 'const':
        return VI(len(v.a['py']))
    if v.ty == 'hlist':
        return VI(len(v.a['prefix']) + Length(v.a['tail'].z))
    raise Unsupported('len of ' + v.ty)


def index(v, k, g=None):
    """v[k] for an int index k"""
    if v.ty == 'hlist':
        kz = simplify(k.z)
        if z3.is_int_value(kz) and 0 <= kz.as_long() < len(v.a['prefix']):
            return v.a['prefix'][kz.as_long()]
        raise Unsupported('index into the symbolic part of a hybrid list')
    if v.ty in ('list', 'tuple'):
        kz = simplify(k.z)
        if z3.is_int_value(kz):
            items = v.a['items']
            kk = kz.as_long()
            if -len(items) <= kk < len(items):
                return items[kk]
            guard(g, BoolVal(False), 'IndexError')
            return VNone
        raise Unsupported('symbolic index into static list')
    if v.ty == 'const':
        kz = simplify(k.z)
        if z3.is_int_value(kz) and isinstance(v.a['py'], (tuple, list)):
            py = v.a['py']
            kk = kz.as_long()
            if -len(py) <= kk < len(py):
                return lift(py[kk])
            guard(g, BoolVal(False), 'IndexError')
            return VNone
        raise Unsupported('index into const')
    if v.ty == 'seq':
        n = Length(v.z)
        guard(g, And(k.z >= -n, k.z < n), 'IndexError')
        kk = If(k.z < 0, k.z + n, k.z)
        return elem_val(v.z[simplify(kk)], v.a['elem'])
    if v.ty == 'str':
        n = Length(v.z)
        guard(g, And(k.z >= -n, k.z < n), 'IndexError')
        kk = If(k.z < 0, k.z + n, k.z)
        return VS(SubSeq(v.z, simplify(kk), 1))
    raise Unsupported('index into ' + v.ty)


def slice_bounds(sl):
    lo = sl.a['lo']
    hi = sl.a['hi']
    return lo, hi


def slice_of(v, sl, g=None):
    """v[lo:hi] (step None); lo/hi are Val int / none / opt-int"""
    def bound(b):
        if b is None or b.ty == 'none':
            return None
        if b.ty == 'int':
            return b.z
        if b.ty == 'opt' and b.a['some'].ty == 'int':
            return (b.a['isnone'], b.a['some'].z)
        raise Unsupported('slice bound of type ' + b.ty)
    if sl.a.get('step') is not None and sl.a['step'].ty != 'none':
        raise Unsupported('slice step')
    lo, hi = bound(sl.a['lo']), bound(sl.a['hi'])
    if v.ty == 'hlist':
        lz = simplify(lo) if lo is not None and not isinstance(lo, tuple) else None
        if hi is None and lz is not None and z3.is_int_value(lz) and lz.as_long() == len(v.a['prefix']):
            return v.a['tail']
        raise Unsupported('slice of a hybrid list other than [len(prefix):]')
    if isinstance(lo, tuple) or isinstance(hi, tuple):
        src = v.z if v.ty == 'seq' else (v.z if v.ty == 'str' else None)
        if src is None:
            raise Unsupported('optional slice bound on ' + v.ty)
        n = Length(src)
        a = IntVal(0) if lo is None else (If(lo[0], 0, norm_index(lo[1], n)) if isinstance(lo, tuple) else norm_index(lo, n))
        b = n if hi is None else (If(hi[0], n, norm_index(hi[1], n)) if isinstance(hi, tuple) else norm_index(hi, n))
        z = SubSeq(src, a, If(b - a < 0, 0, b - a))
        return VSeq(z, v.a['elem']) if v.ty == 'seq' else VS(z)
    if v.ty == 'seq':
        return VSeq(pyslice(v.z, lo, hi), v.a['elem'])
    if v.ty == 'str':
        return VS(pyslice(v.z, lo, hi))
    if v.ty in ('list', 'tuple'):
        def cb(x, d):
            if x is None:
                return d
            x = simplify(x)
            if not z3.is_int_value(x):
                raise Unsupported('symbolic slice of static list')
            return x.as_long()
        items = v.a['items'][cb(lo, None):cb(hi, None)]
        return VList(items) if v.ty == 'list' else VTuple(items)
    raise Unsupported('slice of ' + v.ty)


def unopt(v, g, exc='TypeError'):
    if v.ty == 'opt':
        guard(g, Not(v.a['isnone']), exc)
        return v.a['some']
    return v


def add(a, b, g=None):
    a, b = unopt(a, g), unopt(b, g)
    if a.ty == 'int' and b.ty == 'int':
        return VI(a.z + b.z)
    if a.ty == 'str' and b.ty == 'str':
        return VS(Concat(a.z, b.z))
    if a.ty == 'seq' and b.ty == 'seq' and a.a['elem'] == b.a['elem']:
        return VSeq(Concat(a.z, b.z), a.a['elem'])
    if a.ty == 'list' and b.ty == 'list':
        return VList(a.a['items'] + b.a['items'])
    if a.ty == 'const' and b.ty == 'const' and isinstance(a.a['py'], tuple) and isinstance(b.a['py'], tuple):
        return VConst(a.a['py'] + b.a['py'])
    if a.ty == 'const' and b.ty == 'seq' and isinstance(a.a['py'], tuple) and b.a['elem'] == 'str':
        pre = a.a['py']
        z = Concat(*([Unit(pystr(x)) for x in pre] + [b.z])) if pre else b.z
        return VSeq(z, 'str')
    raise Unsupported('%s + %s' % (a.ty, b.ty))


def arith(op, a, b, g=None):
    a, b = unopt(a, g), unopt(b, g)
    if a.ty == 'bool':
        a = VI(If(a.z, 1, 0))
    if b.ty == 'bool':
        b = VI(If(b.z, 1, 0))
    if a.ty == 'int' and b.ty == 'int':
        if op == '-':
            return VI(a.z - b.z)
        if op == '*':
            return VI(a.z * b.z)
        if op == '+':
            return VI(a.z + b.z)
    if op == '+':
        return add(a, b, g)
    raise Unsupported('%s %s %s' % (a.ty, op, b.ty))


def to_str(v):
    """str(v) as a Seq(Int) term"""
    if v.ty in ('str', 'tok'):
        return strz(v)
    if v.ty == 'int':
        return int2str(v.z)
    if v.ty == 'E':
        return ser(v.z)
    if v.ty == 'none':
        return pystr('None')
    if v.ty == 'opt':
        return If(v.a['isnone'], pystr('None'), to_str(v.a['some']))
    if v.ty == 'bool':
        return If(v.z, pystr('True'), pystr('False'))
    raise Unsupported('str() of ' + v.ty)


def fmt_percent(fmt, args):
    """'...%s...' % args  (only %s and %d), message-free subset"""
    parts = []
    i = 0
    k = 0
    buf = ''
    while i < len(fmt):
        if fmt[i] == '%' and i + 1 < len(fmt):
            c = fmt[i + 1]
            if c == '%':
                buf += '%'
            elif c in 'sd':
                if buf:
                    parts.append(pystr(buf))
                    buf = ''
                if k >= len(args):
                    raise Unsupported('format arity')
                parts.append(to_str(args[k]))
                k += 1
            else:
                raise Unsupported('format spec %' + c)
            i += 2
            continue
        buf += fmt[i]
        i += 1
    if buf:
        parts.append(pystr(buf))
    if k != len(args):
        raise Unsupported('format arity')
    if not parts:
        return VS(Empty(Str))
    return VS(Concat(*parts) if len(parts) > 1 else parts[0])
