"""Expression evaluation of the real code (forking on branches and on partial operations)."""
import ast

import z3
from z3 import (IntVal, BoolVal, Length, If, And, Or, Not, Implies, is_true, is_false, simplify, Concat, Unit, Empty,
                PrefixOf, SuffixOf, IndexOf, SubSeq, IntSort, BoolSort)

from . import ops
from .sorts import Str, Tok, seqsort, NONE_CAT, pystr
from .values import (Val, VI, VB, VS, VNone, VTok, VOpt, VTuple, VSeq, VList, VObj, VConst, VE, lift, strz, St,
                     Unsupported, fresh, elem_val, elem_z)
from .loader import PySet

CMP = {ast.Eq: '==', ast.NotEq: '!=', ast.Lt: '<', ast.LtE: '<=', ast.Gt: '>', ast.GtE: '>=', ast.Is: 'is',
       ast.IsNot: 'is not', ast.In: 'in', ast.NotIn: 'not in'}


def mangle(attr, cls_qual):
    if attr.startswith('__') and not attr.endswith('__') and cls_qual:
        return '_%s%s' % (cls_qual.split('.')[-1].lstrip('_'), attr)
    return attr


class ExprMixin:
    # ------------------------------------------------------------------ plumbing
    def ev(self, n, st):
        m = getattr(self, 'x_' + type(n).__name__, None)
        if m is None:
            raise Unsupported('expression syntax %s (line %s)' % (type(n).__name__, getattr(n, 'lineno', '?')))
        return m(n, st)

    def evs(self, nodes, st):
        """evaluate nodes left to right -> ([(st, [vals])], [raise outcomes])"""
        cur = [(st, [])]
        raises = []
        for n in nodes:
            nxt = []
            for s, vs in cur:
                for o in self.ev(n, s):
                    if o[0] == 'raise':
                        raises.append(o)
                    else:
                        nxt.append((o[1], vs + [o[2]]))
            cur = nxt
        return cur, raises

    def with_op(self, st, fn):
        g = []
        v = fn(g)
        return self.finish(st, g, v)

    # ------------------------------------------------------------------ atoms
    def x_Constant(self, n, st):
        return [('val', st, lift(n.value))]

    def x_Name(self, n, st):
        if n.id in st.env:
            if st.env[n.id].ty == 'undef':
                return [('raise', st, 'UnboundLocalError')]
            return [('val', st, st.env[n.id])]
        v = self.lookup_global(n.id, None)
        if v is not None:
            return [('val', st, v)]
        if n.id in ('len', 'isinstance', 'next', 'iter', 'bool', 'str', 'list', 'hasattr', 'getattr', 'min', 'max',
                    'enumerate', 'range', 'any', 'all', 'map', 'filter', 'repr', 'hash', 'tuple', 'int', 'super', 'sorted',
                    'slice', 'print'):
            return [('val', st, Val('builtin', None, name=n.id))]
        if n.id in ('StopIteration', 'IndexError', 'TypeError', 'EOFError', 'AssertionError', 'ValueError',
                    'KeyError', 'AttributeError', 'RuntimeError'):
            return [('val', st, Val('exc', None, name=n.id))]
        raise Unsupported('unbound name %s' % n.id)

    def x_Tuple(self, n, st):
        cur, raises = self.evs(n.elts, st)
        return raises + [('val', s, VTuple(vs)) for s, vs in cur]

    def x_List(self, n, st):
        cur, raises = self.evs(n.elts, st)
        return raises + [('val', s, VList(vs)) for s, vs in cur]

    def x_Dict(self, n, st):
        cur, raises = self.evs(list(n.keys) + list(n.values), st)
        out = list(raises)
        k = len(n.keys)
        for s, vs in cur:
            out.append(('val', s, Val('dict', None, items=list(zip(vs[:k], vs[k:])))))
        return out

    def x_Lambda(self, n, st):
        return [('val', st, Val('func', None, lam=n, env=dict(st.env), module=self.cur_fn.module))]

    def x_JoinedStr(self, n, st):
        raise Unsupported('f-string')

    # ------------------------------------------------------------------ boolean structure
    def x_BoolOp(self, n, st):
        is_and = isinstance(n.op, ast.And)
        outs = []
        work = [(st, 0, None)]
        while work:
            s, i, _ = work.pop()
            for o in self.ev(n.values[i], s):
                if o[0] == 'raise':
                    outs.append(o)
                    continue
                s1, v = o[1], o[2]
                if i == len(n.values) - 1:
                    outs.append(('val', s1, v))
                    continue
                t, f = self.split(s1, self.truth_of(v, s1))
                stop, go = (f, t) if is_and else (t, f)
                if stop is not None:
                    outs.append(('val', stop, v))
                if go is not None:
                    work.append((go, i + 1, None))
        return outs

    def x_UnaryOp(self, n, st):
        outs = []
        for o in self.ev(n.operand, st):
            if o[0] == 'raise':
                outs.append(o)
                continue
            v = o[2]
            if isinstance(n.op, ast.Not):
                outs.append(('val', o[1], VB(simplify(Not(self.truth_of(v, o[1]))))))
            elif isinstance(n.op, ast.USub) and v.ty == 'int':
                outs.append(('val', o[1], VI(-v.z)))
            else:
                raise Unsupported('unary operator')
        return outs

    def x_IfExp(self, n, st):
        outs = []
        for o in self.ev(n.test, st):
            if o[0] == 'raise':
                outs.append(o)
                continue
            t, f = self.split(o[1], self.truth_of(o[2], o[1]))
            if t is not None:
                outs += self.ev(n.body, t)
            if f is not None:
                outs += self.ev(n.orelse, f)
        return outs

    def x_Compare(self, n, st):
        # a < b < c evaluates left to right with short circuit; the code base only has simple chains
        outs = []
        cur, raises = self.evs([n.left] + list(n.comparators), st)
        outs += raises
        for s, vs in cur:
            g = []
            zs = []
            for op, a, b in zip(n.ops, vs, vs[1:]):
                zs.append(self.compare(CMP[type(op)], a, b, g, s).z)
            outs += self.finish(s, g, VB(And(*zs) if len(zs) > 1 else zs[0]))
        return outs

    def compare(self, op, a, b, g, st):
        # objects with a python-level __eq__ / __contains__ are handled by the domain hooks
        for h in self.reg.attr_hooks:
            r = h(self, 'compare', (op, a, b), st)
            if r is not None:
                return r
        return ops.compare(op, a, b, g)

    # ------------------------------------------------------------------ arithmetic
    def x_BinOp(self, n, st):
        outs = []
        cur, raises = self.evs([n.left, n.right], st)
        outs += raises
        for s, (a, b) in cur:
            outs += self.binop(n.op, a, b, s, n)
        return outs

    def binop(self, op, a, b, st, node=None):
        if isinstance(op, ast.Mod) and ops.is_strlike(a):
            fz = simplify(strz(a))
            fmt = _const_str(fz)
            if fmt is None:
                raise Unsupported('symbolic format string')
            args = b.a['items'] if b.ty == 'tuple' else [b]
            args2 = []
            st2 = st
            for x in args:
                if x.ty == 'obj':
                    o = self.call_str(x, st2)
                    if len(o) != 1 or o[0][0] != 'val':
                        raise Unsupported('str() of object inside % forks')
                    st2, x = o[0][1], o[0][2]
                args2.append(x)
            return [('val', st2, ops.fmt_percent(fmt, args2))]
        if isinstance(op, ast.Add):
            if a.ty == 'tok':
                return self.call_method_val(a, '__add__', [b], {}, st, node)
            if b.ty == 'tok' and a.ty == 'str':
                return self.call_method_val(b, '__radd__', [a], {}, st, node)
            return self.with_op(st, lambda g: ops.add(a, b, g))
        sym = {ast.Sub: '-', ast.Mult: '*'}.get(type(op))
        if sym is None:
            raise Unsupported('binary operator ' + type(op).__name__)
        return self.with_op(st, lambda g: ops.arith(sym, a, b, g))

    # ------------------------------------------------------------------ attribute access
    def x_Attribute(self, n, st):
        outs = []
        for o in self.ev(n.value, st):
            if o[0] == 'raise':
                outs.append(o)
                continue
            outs += self.getattr_val(o[2], n.attr, o[1], n)
        return outs

    def getattr_val(self, v, attr, st, node=None):
        for h in self.reg.attr_hooks:
            r = h(self, 'getattr', (v, attr, node), st)
            if r is not None:
                return r
        t = v.ty
        if t == 'obj':
            cls = v.a['cls']
            a = mangle(attr, self.cur_fn.cls if self.cur_fn else None)
            view = self._view_or_none(v)
            if view is not None and view.repmap is not None:
                r = view.repmap.load(self, st, v, a)
                if r is not None:
                    return r
            fields = st.heap[v.a['ref']]
            if a in fields and fields[a].ty != 'unset':
                return [('val', st, fields[a])]
            mem = self.repo.lookup_member(cls, attr)
            if mem is not None and mem[0] == 'func':
                q = mem[1]
                fi = self.repo.func(q)
                if 'property' in fi.decorators:
                    return self.call_function(q, [v], {}, st, node)
                if 'staticmethod' in fi.decorators:
                    return [('val', st, Val('func', None, qual=q))]
                if 'classmethod' in fi.decorators:
                    return [('val', st, Val('func', None, qual=q, boundcls=Val('cls', None, name=cls)))]
                return [('val', st, Val('func', None, qual=q, bound=v))]
            if mem is not None:
                return [('val', st, lift(mem[1]))]
            raise Unsupported('attribute %s of object %s' % (attr, cls))
        if t == 'tok':
            if attr == 'text':
                return [('val', st, VS(Tok.text(v.z)))]
            if attr == 'position':
                return [('val', st, VI(Tok.pos(v.z)))]
            if attr == 'category':
                c = Tok.cat(v.z)
                return [('val', st, VOpt(simplify(c == NONE_CAT), VI(c)))]
            q = self.repo.resolve_method('utils.Token', attr)
            if q is not None:
                return [('val', st, Val('func', None, qual=q, bound=v))]
            return [('val', st, Val('func', None, strmethod=attr, bound=VS(Tok.text(v.z))))]   # Token.__getattr__
        if t == 'str':
            return [('val', st, Val('func', None, strmethod=attr, bound=v))]
        if t == 'none':
            return [('raise', st, 'AttributeError')]
        if t == 'opt':
            tn, fn = self.split(st, v.a['isnone'])
            outs = []
            if tn is not None:
                outs.append(('raise', tn, 'AttributeError'))
            if fn is not None:
                outs += self.getattr_val(v.a['some'], attr, fn, node)
            return outs
        if t == 'const':
            py = v.a['py']
            if isinstance(py, dict) and '__enumcls__' in py:
                if attr in py['members']:
                    return [('val', st, VI(py['members'][attr]))]
                return [('raise', st, 'AttributeError')]
            return [('val', st, Val('func', None, constmethod=attr, bound=v))]
        if t == 'cls':
            mem = self.repo.lookup_member(v.a['name'], attr)
            if mem is not None and mem[0] == 'func':
                fi = self.repo.func(mem[1])
                return [('val', st, Val('func', None, qual=mem[1],
                                        boundcls=v if 'classmethod' in fi.decorators else None))]
            if mem is not None:
                return [('val', st, lift(mem[1]))]
            raise Unsupported('class attribute %s.%s' % (v.a['name'], attr))
        if t == 'slice':
            return [('val', st, v.a[{'start': 'lo', 'stop': 'hi', 'step': 'step'}[attr]] or VNone)]
        if t in ('seq', 'list', 'dict', 'hlist', 'kwargs'):
            return [('val', st, Val('func', None, listmethod=attr, bound=v, target=node))]
        if t == 'E':
            raise Unsupported('attribute %s of a published expression' % attr)
        if t == 'super':
            obj = v.a['obj']
            if obj is not None and obj.ty == 'E':
                # a published expression: its class is below the defining class in a single-inheritance chain, so the
                # classes after the defining class in the MRO are those of the defining class itself
                base = self.repo.mro(v.a['cls'])
                for q_, info in self.repo.classes.items():        # checked on the class tree, not assumed
                    m_ = self.repo.mro(q_)
                    if v.a['cls'] in m_ and m_[m_.index(v.a['cls']):] != base:
                        raise Unsupported('super() in %s: %s does not end its MRO with it' % (v.a['cls'], q_))
                for b in base[1:]:
                    if b + '.' + attr in self.repo.funcs:
                        return [('val', st, Val('func', None, qual=b + '.' + attr, bound=obj))]
                raise Unsupported('super().%s on a published expression' % attr)
            if obj is None or obj.ty not in ('obj', 'cls'):
                raise Unsupported('super() without self')
            dyn = obj.a['cls'] if obj.ty == 'obj' else obj.a['name']
            mro = self.repo.mro(dyn)
            idx = mro.index(v.a['cls']) if v.a['cls'] in mro else -1
            for b in mro[idx + 1:]:
                if b + '.' + attr in self.repo.funcs:
                    return [('val', st, Val('func', None, qual=b + '.' + attr, bound=obj))]
                if b.startswith('builtins.'):
                    return [('val', st, Val('func', None, builtinmethod=(b, attr), bound=obj))]
            raise Unsupported('super().%s' % attr)
        raise Unsupported('attribute %s on %s' % (attr, t))

    def _view_or_none(self, v):
        try:
            return self.view_of(v)
        except Unsupported:
            return None

    # ------------------------------------------------------------------ subscripts
    def x_Slice(self, n, st):
        parts = [n.lower, n.upper, n.step]
        cur, raises = self.evs([p for p in parts if p is not None], st)
        outs = list(raises)
        for s, vs in cur:
            it = iter(vs)
            vals = [next(it) if p is not None else None for p in parts]
            outs.append(('val', s, Val('slice', None, lo=vals[0], hi=vals[1], step=vals[2])))
        return outs

    def x_Subscript(self, n, st):
        outs = []
        cur, raises = self.evs([n.value, n.slice], st)
        outs += raises
        for s, (v, k) in cur:
            outs += self.subscript(v, k, s, n)
        return outs

    def subscript(self, v, k, st, node=None):
        if v.ty == 'obj':
            return self.call_method_val(v, '__getitem__', [k], {}, st, node)
        if v.ty == 'tok':
            return self.call_method_val(v, '__getitem__', [k], {}, st, node)
        if v.ty == 'const' and isinstance(v.a['py'], dict):
            return self.dict_lookup(v.a['py'], k, st)
        if v.ty == 'dict':
            outs = []
            rest = st
            for kk, vv in v.a['items']:
                t, rest = self.split(rest, ops.eq(k, kk))
                if t is not None:
                    outs.append(('val', t, vv))
                if rest is None:
                    break
            if rest is not None:
                outs.append(('raise', rest, 'KeyError'))
            return outs
        if k.ty == 'slice':
            return self.with_op(st, lambda g: ops.slice_of(v, k, g))
        if k.ty == 'int':
            if v.ty == 'seq':
                self.touch(st, If(k.z < 0, k.z + Length(v.z), k.z))
            return self.with_op(st, lambda g: ops.index(v, k, g))
        raise Unsupported('subscript %s[%s]' % (v.ty, k.ty))

    def dict_lookup(self, py, k, st):
        outs = []
        rest = st
        for kk, vv in py.items():
            t, rest = self.split(rest, ops.eq(k, lift(kk)))
            if t is not None:
                outs.append(('val', t, lift(vv)))
            if rest is None:
                break
        if rest is not None:
            outs.append(('raise', rest, 'KeyError'))
        return outs

    def x_Starred(self, n, st):
        outs = []
        for o in self.ev(n.value, st):
            if o[0] == 'raise':
                outs.append(o)
            else:
                outs.append(('val', o[1], Val('star', None, v=o[2])))
        return outs

    def x_ListComp(self, n, st):
        for h in self.reg.call_hooks:
            r = h(self, n, st)
            if r is not None:
                return r
        raise Unsupported('list comprehension (line %s)' % n.lineno)

    def x_GeneratorExp(self, n, st):
        for h in self.reg.call_hooks:
            r = h(self, n, st)
            if r is not None:
                return r
        raise Unsupported('generator expression (line %s)' % n.lineno)

    def x_Yield(self, n, st):
        outs = []
        for o in (self.ev(n.value, st) if n.value is not None else [('val', st, VNone)]):
            if o[0] == 'raise':
                outs.append(o)
                continue
            s = o[1]
            out = s.ghost.get('$out')
            if out is None:
                raise Unsupported('yield without a declared output sequence')
            item = o[2]
            if item.ty == 'opt':
                self.oblige('%s@L%d#yielded-value-is-not-None' % (self.cur.key, n.lineno), s,
                            Not(item.a['isnone']), 'A')
                item = item.a['some']
            for h in self.reg.attr_hooks:       # domain-specific conversion of the yielded value to the element type
                r = h(self, 'to-elem', (item, out.a['elem']), s)
                if r is not None:
                    item = r
                    break
            xz = elem_z(item, out.a['elem'])
            new = Concat(out.z, Unit(xz))
            s.ghost['$out'] = VSeq(new, out.a['elem'])
            # sequence facts about the extension (definitional; supplied so that the solver need not derive them)
            from .spec import QBool
            n0 = Length(out.z)
            s.fact(Length(new) == n0 + 1)
            s.fact(new[n0] == xz)
            for h in self.reg.attr_hooks:
                h(self, 'appended', (out.z, xz, new, out.a['elem']), s)
            self.touch(s, n0)
            self.assume_clause(s, [QBool(BoolVal(True), IntVal(0), n0, lambda k, new=new, old=out.z: new[k] == old[k])])
            for h in getattr(self.cur, 'yield_hooks', []):
                h(self, s, o[2])
            outs.append(('val', s, VNone))
        return outs


def _const_str(z):
    """python str of a constant Seq(Int) term, or None"""
    try:
        from .smt import pyval
        v = pyval(z)
        if isinstance(v, list) and all(isinstance(c, int) for c in v):
            return ''.join(chr(c) for c in v)
    except Exception:
        pass
    return None
