"""Driver: verify contracts against the working tree and discharge the obligations."""
import sys
import time

from .loader import Repo
from .engine import Engine
from .smt import discharge
from .values import Unsupported


def verify_contracts(reg, keys=None, repo=None, z3_ms=5000, cvc5_ms=20000, verbose=False):
    repo = repo or Repo()
    eng = Engine(repo, reg)
    t0 = time.time()
    todo = [c for c in reg.all_contracts() if not c.trusted and (keys is None or c.key in keys or c.qual in keys or any(c.qual.startswith(k) for k in keys if k.endswith('.')))]
    for c in todo:
        if c.qual not in repo.funcs:
            eng.unsupported[c.key] = 'function not found in the working tree'
            continue
        eng.verify(c)
    t_sym = time.time() - t0
    res = discharge(eng.obls, z3_ms=z3_ms, cvc5_ms=cvc5_ms)
    return eng, res, t_sym, time.time() - t0 - t_sym


def main(argv):
    from contracts import load_all
    reg = load_all()
    keys = set(argv) if argv else None
    eng, res, ts, td = verify_contracts(reg, keys)
    bad = 0
    groups = {}
    for r in res:
        if r.obl.kind == 'V':
            groups.setdefault(r.obl.meta.get('group', r.obl.name), []).append(r.verdict)
    for r in res:
        o = r.obl
        if o.kind == 'V' and o.meta.get('strict'):
            ok = r.verdict != 'unsat'
        elif o.kind == 'V' and o.meta.get('expect') == 'sat':
            ok = 'sat' in groups[o.meta.get('group', o.name)] or r.verdict == 'unknown'
        elif o.kind == 'K':
            ok = True
            if r.verdict == 'sat':
                print('  KNOWN   %s (finding %s)' % (o.name, o.meta.get('finding')))
        else:
            ok = r.verdict == 'unsat'
        if not ok:
            bad += 1
            print('  %-7s %s %s [%s %.2fs]' % (r.verdict.upper(), o.kind, o.name, r.backend, r.secs))
            if r.model:
                for k, v in sorted(r.model.items()):
                    print('           %s = %s' % (k, v))
    for k, why in eng.unsupported.items():
        print('  OUT-OF-REACH %s: %s' % (k, why))
    print('%d obligations, %d not discharged, %d out of reach; symex %.1fs solve %.1fs; %s' % (
        len(res), bad, len(eng.unsupported), ts, td, eng.stats))


if __name__ == '__main__':
    main(sys.argv[1:])
