"""Driver: verify contracts against the working tree and discharge the obligations."""
import sys
import time

from .loader import Repo
from .engine import Engine
from .smt import discharge
from .values import Unsupported


_JOB = {}
WEIGHT = {'reader.read_expr': 14, 'tokens.next_token': 10, 'category.categorize': 8, 'reader.read_arg_required': 5,
          'reader.read_env': 5, 'tokens.tokenize': 6, 'reader.read_command': 6, 'reader.read_args': 4, 'reader.read_item': 4,
          'reader.read_arg_optional': 3, 'reader.read_arg': 3, 'tokens.tokenize_spacers': 4, 'reader.read_math_env': 2}


def _group_job(keys):
    """one group of contracts: symbolic execution in this process, discharge in an inner pool of forked workers"""
    reg, repo, z3_ms, cvc5_ms, inner = _JOB['reg'], _JOB['repo'], _JOB['z3_ms'], _JOB['cvc5_ms'], _JOB['inner']
    eng = Engine(repo, reg)
    t0 = time.time()
    per = {}
    for key in keys:
        c = [c for c in reg.all_contracts() if c.key == key][0]
        t1 = time.time()
        n0 = len(eng.obls)
        if c.qual not in repo.funcs:
            eng.unsupported[key] = 'function not found in the working tree'
            continue
        eng.verify(c)
        per[key] = {'symex_s': round(time.time() - t1, 2), 'obligations': len(eng.obls) - n0}
    t_sym = time.time() - t0
    from .smt import OblInfo, Result
    res = discharge(eng.obls, z3_ms=z3_ms, cvc5_ms=cvc5_ms, procs=inner)
    out = [Result(OblInfo(r.obl), r.verdict, r.backend, r.secs, r.model, r.queries) for r in res]
    return out, dict(eng.unsupported), dict(eng.stats), per, t_sym, time.time() - t0 - t_sym


class _EngSummary:
    def __init__(self):
        self.unsupported = {}
        self.stats = {}
        self.per_function = {}


def verify_contracts(reg, keys=None, repo=None, z3_ms=5000, cvc5_ms=20000, verbose=False, procs=None):
    """the selected contracts are split into groups; each group is symbolically executed in its own process and
    its obligations are discharged by that process's pool of forked solver workers"""
    import os
    from concurrent.futures import ProcessPoolExecutor
    import multiprocessing as mp
    repo = repo or Repo()
    todo = [c.key for c in reg.all_contracts() if not c.trusted and (
        keys is None or c.key in keys or c.qual in keys or any(c.qual.startswith(k) for k in keys if k.endswith('.')))]
    ncpu = procs or min(16, os.cpu_count() or 4)
    ngroups = max(1, min(4, len(todo), ncpu // 4 or 1))
    _JOB.update(reg=reg, repo=repo, z3_ms=z3_ms, cvc5_ms=cvc5_ms, inner=max(1, ncpu // ngroups))
    groups = [[] for _ in range(ngroups)]
    load = [0] * ngroups
    for k in sorted(todo, key=lambda k: -WEIGHT.get(k.split('[')[0], 1)):
        g = load.index(min(load))
        groups[g].append(k)
        load[g] += WEIGHT.get(k.split('[')[0], 1)
    summ = _EngSummary()
    results = []
    t_sym = t_solve = 0.0
    if ngroups == 1:
        outs = [_group_job(groups[0])]
    else:
        with ProcessPoolExecutor(ngroups, mp_context=mp.get_context('fork')) as ex:
            outs = list(ex.map(_group_job, groups))
    for res, unsup, stats, per, ts, td in outs:
        results += res
        summ.unsupported.update(unsup)
        for k, v in stats.items():
            summ.stats[k] = summ.stats.get(k, 0) + v
        summ.per_function.update(per)
        t_sym = max(t_sym, ts)
        t_solve = max(t_solve, td)
    return summ, results, t_sym, t_solve


def main(argv):
    from contracts import load_all
    reg = load_all()
    keys = set(argv) if argv else None
    eng, res, ts, td = verify_contracts(reg, keys)
    bad = 0
    groups = {}
    for r in res:
        if r.obl.kind == 'V':
            groups.setdefault(r.obl.meta.get('group', r.obl.name), []).append(r.verdict)
    for r in res:
        o = r.obl
        if o.kind == 'V' and o.meta.get('strict'):
            ok = r.verdict != 'unsat'
        elif o.kind == 'V' and o.meta.get('expect') == 'sat':
            ok = 'sat' in groups[o.meta.get('group', o.name)] or r.verdict == 'unknown'
        elif o.kind == 'K':
            ok = True
            if r.verdict == 'sat':
                print('  KNOWN   %s (finding %s)' % (o.name, o.meta.get('finding')))
        else:
            ok = r.verdict == 'unsat'
        if not ok:
            bad += 1
            print('  %-7s %s %s [%s %.2fs]' % (r.verdict.upper(), o.kind, o.name, r.backend, r.secs))
            if r.model:
                for k, v in sorted(r.model.items()):
                    print('           %s = %s' % (k, v))
    for k, why in eng.unsupported.items():
        print('  OUT-OF-REACH %s: %s' % (k, why))
    print('%d obligations, %d not discharged, %d out of reach; symex %.1fs solve %.1fs; %s' % (
        len(res), bad, len(eng.unsupported), ts, td, eng.stats))


if __name__ == '__main__':
    main(sys.argv[1:])
