"""Loader: reads the *working tree* of /repo/TexSoup on every run.

* parses every module with `ast` and indexes each FunctionDef by qualified name
  (`utils.Buffer.forward`, `reader.read_env`, `reader.read_skip_env.condition`),
* records a sha256 per function (normalised `ast.dump`, docstrings removed),
* dumps module-level constants / enum members / class attributes / registration
  order of tokenizers from the *imported real modules* (subprocess), so that a
  change to a table is a change to the verification conditions.
"""
import ast
import hashlib
import json
import os
import subprocess
import sys

REPO = os.environ.get('VERIF_REPO', '/repo')
MODULES = ['utils', 'category', 'tokens', 'reader', 'data', 'tex', '__init__']
PY_REPLAY = '/venv/bin/python'

_DUMP = r'''
import sys, json, enum, types
sys.path.insert(0, %(repo)r)
import importlib
out = {}
def enc(v, depth=0):
    if depth > 6: return {"__opaque__": "deep"}
    if isinstance(v, enum.Enum): return {"__enum__": type(v).__name__, "name": v.name, "value": int(v)}
    if isinstance(v, str) and type(v) is not str and hasattr(v, 'position') and hasattr(v, 'category'):
        return {"__token__": [str(v.text), v.position, None if v.category is None else int(v.category)]}
    if v is None or isinstance(v, (bool, int, str)): return v
    if isinstance(v, float): return {"__opaque__": "float"}
    if isinstance(v, tuple): return {"__tuple__": [enc(x, depth+1) for x in v]}
    if isinstance(v, list): return {"__list__": [enc(x, depth+1) for x in v]}
    if isinstance(v, (set, frozenset)):
        try: items = sorted(v)
        except TypeError: items = list(v)
        return {"__set__": [enc(x, depth+1) for x in items]}
    if isinstance(v, dict): return {"__dict__": [[enc(k, depth+1), enc(x, depth+1)] for k, x in v.items()]}
    if isinstance(v, type):
        if issubclass(v, enum.Enum): return {"__enumcls__": v.__name__, "members": [[m.name, int(m)] for m in v]}
        return {"__class__": v.__module__.split('.')[-1] + '.' + v.__qualname__}
    if isinstance(v, (types.FunctionType, types.BuiltinFunctionType)):
        return {"__func__": (getattr(v, '__module__', '') or '').split('.')[-1] + '.' + v.__qualname__}
    if isinstance(v, types.ModuleType): return {"__module__": v.__name__}
    return {"__opaque__": type(v).__name__}
for m in %(mods)r:
    name = 'TexSoup' if m == '__init__' else 'TexSoup.' + m
    mod = importlib.import_module(name)
    g = {}
    for k, v in vars(mod).items():
        if k.startswith('__') and k != '__all__': continue
        g[k] = enc(v)
    classes = {}
    for k, v in vars(mod).items():
        if isinstance(v, type) and v.__module__ == mod.__name__ and not issubclass(v, enum.Enum):
            attrs = {}
            for a, x in vars(v).items():
                if a.startswith('__') and a.endswith('__'): continue
                if isinstance(x, (types.FunctionType, classmethod, staticmethod, property)): continue
                attrs[a] = enc(x)
            classes[k] = {"bases": [b.__module__.split('.')[-1] + '.' + b.__qualname__ for b in v.__bases__],
                          "mro": [b.__module__.split('.')[-1] + '.' + b.__qualname__ for b in v.__mro__],
                          "attrs": attrs}
    out[m] = {"globals": g, "classes": classes}
import TexSoup.tokens as t
out["tokenizers"] = [[n, f.__name__] for n, f in t.tokenizers]
print("@@JSON@@" + json.dumps(out))
'''


def _strip_doc(node):
    for n in ast.walk(node):
        if isinstance(n, (ast.FunctionDef, ast.ClassDef, ast.Module)) and n.body:
            b = n.body[0]
            if isinstance(b, ast.Expr) and isinstance(b.value, ast.Constant) and isinstance(b.value.value, str):
                n.body = n.body[1:] or [ast.Pass()]
    return node


class FuncInfo:
    def __init__(self, qual, node, module, cls, path):
        self.qual, self.node, self.module, self.cls, self.path = qual, node, module, cls, path
        self.lineno = node.lineno
        self.decorators = [ast.unparse(d) for d in node.decorator_list]
        self.is_generator = any(isinstance(n, (ast.Yield, ast.YieldFrom)) for n in self._own_nodes(node))
        import copy
        self.sha = hashlib.sha256(ast.dump(_strip_doc(copy.deepcopy(node))).encode()).hexdigest()[:16]

    @staticmethod
    def _own_nodes(fn):
        """nodes of fn excluding nested function bodies"""
        stack = list(fn.body)
        while stack:
            n = stack.pop()
            yield n
            if isinstance(n, (ast.FunctionDef, ast.Lambda, ast.ClassDef)):
                continue        # a nested definition is a node of this function, its body is not
            for c in ast.iter_child_nodes(n):
                stack.append(c)


class Repo:
    """Snapshot of the working tree's source, taken at construction."""

    def __init__(self, root=None):
        self.root = root or REPO
        self.funcs = {}     # qual -> FuncInfo
        self.classes = {}   # 'data.TexCmd' -> {'bases': [...], 'node': ClassDef}
        self.trees = {}
        self.sources = {}
        for m in MODULES:
            path = os.path.join(self.root, 'TexSoup', m + '.py')
            src = open(path, encoding='utf-8').read()
            self.sources[m] = src
            tree = ast.parse(src, filename=path)
            self.trees[m] = tree
            self._index(m, tree, path)
        self.consts = self._dump_consts()

    def _index(self, m, tree, path):
        def visit(body, prefix, cls):
            for n in body:
                if isinstance(n, ast.FunctionDef):
                    q = prefix + n.name
                    # property setters share the getter's name: keep both
                    if any(isinstance(d, ast.Attribute) and d.attr == 'setter' for d in n.decorator_list):
                        q = q + '.setter'
                    self.funcs[q] = FuncInfo(q, n, m, cls, path)
                    visit(n.body, q + '.', None)
                elif isinstance(n, ast.ClassDef):
                    cq = prefix + n.name
                    self.classes[cq] = {'bases': [ast.unparse(b) for b in n.bases], 'node': n, 'module': m}
                    visit(n.body, cq + '.', cq)
                elif isinstance(n, (ast.If, ast.Try, ast.With, ast.For, ast.While)):
                    for fld in ('body', 'orelse', 'finalbody', 'handlers'):
                        sub = getattr(n, fld, None)
                        if isinstance(sub, list):
                            visit([x for x in sub if isinstance(x, ast.stmt)], prefix, cls)
        visit(tree.body, m + '.', None)

    def _dump_consts(self):
        code = _DUMP % {'repo': self.root, 'mods': MODULES}
        env = dict(os.environ, PYTHONHASHSEED='0', PYTHONDONTWRITEBYTECODE='1')
        p = subprocess.run([sys.executable, '-c', code], capture_output=True, text=True, env=env)
        if p.returncode != 0 or '@@JSON@@' not in p.stdout:
            raise RuntimeError('cannot import TexSoup from %s:\n%s' % (self.root, p.stderr[-2000:]))
        return json.loads(p.stdout.split('@@JSON@@', 1)[1])

    # ------------------------------------------------------------------ helpers
    def func(self, qual):
        return self.funcs[qual]

    def glob(self, module, name):
        return decode(self.consts[module]['globals'][name])

    def has_glob(self, module, name):
        return name in self.consts[module]['globals']

    def class_attr(self, cls_qual, attr):
        """class attribute through the real MRO ('data.BraceGroup', 'begin') -> python value"""
        m, c = cls_qual.split('.', 1)
        info = self.consts[m]['classes'][c]
        for b in info['mro']:
            bm, bc = b.split('.', 1)
            if bm in self.consts and bc in self.consts[bm]['classes']:
                a = self.consts[bm]['classes'][bc]['attrs']
                if attr in a:
                    return decode(a[attr])
        raise KeyError((cls_qual, attr))

    def mro(self, cls_qual):
        m, c = cls_qual.split('.', 1)
        return self.consts[m]['classes'][c]['mro']

    def lookup_member(self, cls_qual, name):
        """python attribute lookup on the class: first class in the MRO that defines `name`
        -> ('func', qual) | ('attr', value) | None"""
        for b in self.mro(cls_qual):
            q = b + '.' + name
            if q in self.funcs:
                return ('func', q)
            bm, _, bc = b.partition('.')
            if bm in self.consts and bc in self.consts[bm]['classes']:
                a = self.consts[bm]['classes'][bc]['attrs']
                if name in a:
                    return ('attr', decode(a[name]))
        return None

    def resolve_method(self, cls_qual, name):
        for b in self.mro(cls_qual):
            q = b + '.' + name
            if q in self.funcs:
                return q
        return None

    def enum(self, name):
        """'CC' / 'TC' -> {member: int}"""
        v = self.consts['utils']['globals'][name]
        return {k: n for k, n in v['members']}


class PySet(frozenset):
    """a set from the real module (iteration order unspecified)"""


class ClassRef(str):
    pass


class FuncRef(str):
    pass


class EnumVal(int):
    pass


class TokenConst(tuple):
    """a utils.Token constant of the real module: (text, position, category)"""


def decode(v):
    if isinstance(v, dict):
        if '__enum__' in v: return EnumVal(v['value'])
        if '__tuple__' in v: return tuple(decode(x) for x in v['__tuple__'])
        if '__list__' in v: return [decode(x) for x in v['__list__']]
        if '__set__' in v: return PySet(decode(x) for x in v['__set__'])
        if '__dict__' in v: return {decode(k): decode(x) for k, x in v['__dict__']}
        if '__class__' in v: return ClassRef(v['__class__'])
        if '__func__' in v: return FuncRef(v['__func__'])
        if '__token__' in v: return TokenConst(v['__token__'])
        if '__enumcls__' in v: return {'__enumcls__': v['__enumcls__'], 'members': dict(v['members'])}
        return ('__opaque__', v)
    return v


if __name__ == '__main__':
    r = Repo()
    print(len(r.funcs), 'functions;', len(r.classes), 'classes')
    for q in sorted(r.funcs):
        f = r.funcs[q]
        print('%-50s %s gen=%s %s' % (q, f.sha, f.is_generator, f.decorators))
    print(r.consts['tokenizers'])
    print(r.class_attr('data.BraceGroup', 'token_end'), r.glob('reader', 'SIGNATURES'))
