"""Mode-flow obligations for the reader (C02: \\begin/\\end inside a definition do not open environments; the parsing
mode must reach every nested reader).  A syntactic data-flow check, no solver:

MF1  a reader that has a parameter `mode` hands it to every reader it calls that also has one (keyword `mode=mode`
     or the positional slot), so the mode set by an enclosing construct reaches all nested constructs
MF2  `mode` is assigned only at the sites on the committed allow-list (entering a definition, entering a math
     environment); any other assignment changes the mode seen by nested constructs
MF3  a reader with a `mode` parameter is never called from a reader that has none without an explicit mode, except
     at the allow-listed sites (readers whose callees restart in normal mode by design)
"""
import ast


def scan(repo, module='reader', param='mode'):
    tree = repo.trees[module]
    funcs = {n.name: n for n in tree.body if isinstance(n, ast.FunctionDef)}

    def params(fn):
        return [a.arg for a in fn.args.args] + [a.arg for a in fn.args.kwonlyargs]
    R = {'mode': 'MF', 'tolerance': 'TF', 'skip_envs': 'SF'}[param]
    has_mode = {name for name, fn in funcs.items() if param in params(fn)}
    sites = []
    for name, fn in funcs.items():
        mine = param in params(fn)
        for n in ast.walk(fn):
            if isinstance(n, ast.Call) and isinstance(n.func, ast.Name) and n.func.id in has_mode:
                callee = funcs[n.func.id]
                idx = params(callee).index(param)
                passed = None
                for k in n.keywords:
                    if k.arg == param:
                        passed = k.value
                if passed is None and len(n.args) > idx and not any(isinstance(a, ast.Starred) for a in n.args):
                    passed = n.args[idx]
                what = ast.unparse(passed) if passed is not None else '<default>'
                if mine:
                    ok = isinstance(passed, ast.Name) and passed.id == param
                    sites.append((R + '1', name, n.func.id, what, ok, n.lineno))
                else:
                    sites.append((R + '3', name, n.func.id, what, False, n.lineno))
            if isinstance(n, (ast.Assign, ast.AugAssign, ast.AnnAssign)):
                tgts = n.targets if isinstance(n, ast.Assign) else [n.target]
                for t in tgts:
                    for tt in ast.walk(t):
                        if isinstance(tt, ast.Name) and tt.id == param:
                            cond = _guard_of(fn, n)
                            sites.append((R + '2', name, '%s = %s' % (param, ast.unparse(n.value)), cond, False, n.lineno))
    return sites


def _guard_of(fn, stmt):
    """source text of the innermost `if` test guarding stmt ('' when unguarded; 'else' branches are marked)"""
    best = ''

    def visit(node, guard):
        nonlocal best
        for ch in ast.iter_child_nodes(node):
            if ch is stmt:
                best = guard
                return
            if isinstance(ch, ast.If):
                for b in ch.body:
                    if b is stmt or any(x is stmt for x in ast.walk(b)):
                        visit_list(ch.body, ast.unparse(ch.test))
                        return
                for b in ch.orelse:
                    if b is stmt or any(x is stmt for x in ast.walk(b)):
                        visit_list(ch.orelse, 'not (%s)' % ast.unparse(ch.test))
                        return
            elif any(x is stmt for x in ast.walk(ch)):
                visit(ch, guard)
                return

    def visit_list(stmts, guard):
        nonlocal best
        for s in stmts:
            if s is stmt:
                best = guard
                return
            if any(x is stmt for x in ast.walk(s)):
                if isinstance(s, ast.If):
                    inb = any(any(x is stmt for x in ast.walk(b)) for b in s.body)
                    visit_list(s.body if inb else s.orelse,
                               ast.unparse(s.test) if inb else 'not (%s)' % ast.unparse(s.test))
                else:
                    visit(s, guard)
                return
    visit_list(fn.body, '')
    return best


def key(site):
    rule, fn, a, b, ok, line = site
    return '%s:%s:%s:%s' % (rule, fn, a, b)
