"""Statement execution: outcomes ('fall', st) | ('return', st, v) | ('raise', st, exc) | ('break', st) | ('continue', st)."""
import ast

import z3
from z3 import (IntVal, BoolVal, Length, If, And, Or, Not, Implies, is_true, is_false, simplify, Concat, Unit, Empty,
                IntSort)

from . import ops
from .sorts import Str, Tok, NONE_CAT, seqsort
from .values import (Val, VI, VB, VS, VNone, VTok, VOpt, VTuple, VSeq, VList, VObj, VConst, VE, lift, strz, St, like,
                     Unsupported, fresh, elem_val)
from .spec import Ctx
from .exprs import mangle
from .loader import PySet, FuncInfo
from .calls import to_py


class StmtMixin:
    def block(self, stmts, st):
        cur = [st]
        outs = []
        for s in stmts:
            nxt = []
            for c in cur:
                for o in self.stmt(s, c):
                    if o[0] == 'fall':
                        nxt.append(o[1])
                    else:
                        outs.append(o)
            cur = nxt
            if not cur:
                break
        return outs + [('fall', c) for c in cur]

    def stmt(self, s, st):
        m = getattr(self, 's_' + type(s).__name__, None)
        if m is None:
            raise Unsupported('statement %s (line %s)' % (type(s).__name__, s.lineno))
        return m(s, st)

    def s_Pass(self, s, st):
        return [('fall', st)]

    def s_Expr(self, s, st):
        if isinstance(s.value, ast.Constant):
            return [('fall', st)]
        if isinstance(s.value, ast.YieldFrom):
            return self.yield_from(s.value, st)
        return [('fall', o[1]) if o[0] == 'val' else o for o in self.ev(s.value, st)]

    def yield_from(self, n, st):
        outs = []
        for o in self.ev(n.value, st):
            if o[0] == 'raise':
                outs.append(o)
                continue
            s, v = o[1], o[2]
            out = s.ghost.get('$out')
            if out is None or v.ty != 'seq' or v.a['elem'] != out.a['elem']:
                raise Unsupported('yield from %s' % v.ty)
            s.ghost['$out'] = VSeq(Concat(out.z, v.z), out.a['elem'])
            outs.append(('fall', s))
        return outs

    def s_Return(self, s, st):
        if s.value is None:
            return [('return', st, VNone)]
        return [('return', o[1], o[2]) if o[0] == 'val' else o for o in self.ev(s.value, st)]

    def s_Break(self, s, st):
        return [('break', st)]

    def s_Continue(self, s, st):
        return [('continue', st)]

    def s_FunctionDef(self, s, st):
        st.env[s.name] = Val('func', None, defnode=s, env=st.env, module=self.cur_fn.module)
        return [('fall', st)]

    def s_Raise(self, s, st):
        if s.exc is None:
            raise Unsupported('re-raise')
        e = s.exc
        if isinstance(e, ast.Call):
            e = e.func
        if isinstance(e, ast.Name):
            return [('raise', st, e.id)]       # message construction is dropped (DESIGN 3.3)
        raise Unsupported('raise form')

    def s_Assert(self, s, st):
        outs = []
        for o in self.ev(s.test, st):
            if o[0] == 'raise':
                outs.append(o)
                continue
            t, f = self.split(o[1], self.truth_of(o[2], o[1]))
            if f is not None:
                outs.append(('raise', f, 'AssertionError'))
            if t is not None:
                outs.append(('fall', t))
        return outs

    def s_If(self, s, st):
        outs = []
        for o in self.ev(s.test, st):
            if o[0] == 'raise':
                outs.append(o)
                continue
            t, f = self.split(o[1], self.truth_of(o[2], o[1]))
            if t is not None:
                outs += self.block(s.body, t)
            if f is not None:
                outs += self.block(s.orelse, f) if s.orelse else [('fall', f)]
        return outs

    # ------------------------------------------------------------------ assignment
    def s_Assign(self, s, st):
        outs = []
        for o in self.ev(s.value, st):
            if o[0] == 'raise':
                outs.append(o)
                continue
            cur = [o[1]]
            for t in s.targets:
                nxt = []
                for c in cur:
                    for o2 in self.assign_target(t, o[2], c):
                        if o2[0] == 'fall':
                            nxt.append(o2[1])
                        else:
                            outs.append(o2)
                cur = nxt
            outs += [('fall', c) for c in cur]
        return outs

    def assign_target(self, t, v, st, must_single=False):
        if isinstance(t, ast.Name):
            st.env[t.id] = v
            return [('fall', st)]
        if isinstance(t, (ast.Tuple, ast.List)):
            if v.ty in ('tuple', 'list'):
                items = v.a['items']
            elif v.ty == 'const' and isinstance(v.a['py'], (tuple, list)):
                items = [lift(x) for x in v.a['py']]
            else:
                raise Unsupported('unpacking of ' + v.ty)
            if len(items) != len(t.elts):
                return [('raise', st, 'ValueError')]
            outs = [('fall', st)]
            for el, x in zip(t.elts, items):
                nxt = []
                for o in outs:
                    nxt += self.assign_target(el, x, o[1]) if o[0] == 'fall' else [o]
                outs = nxt
            return outs
        if isinstance(t, ast.Attribute):
            outs = []
            for o in self.ev(t.value, st):
                if o[0] == 'raise':
                    outs.append(o)
                    continue
                outs += self.setattr_val(o[2], t.attr, v, o[1], t)
            return outs
        if isinstance(t, ast.Subscript) and isinstance(t.value, ast.Name) and t.value.id in st.env and \
                st.env[t.value.id].ty in ('kwargs', 'dict'):
            # d[key] = v on a dictionary held in a local: the local is rebound to the updated dictionary (the caller's
            # view of the same dictionary object is not modelled; see the assumption on attrs in the search contracts)
            d = st.env[t.value.id]
            outs = []
            for o in self.ev(t.slice, st):
                if o[0] == 'raise':
                    outs.append(o)
                    continue
                from .calls import _pystr
                key = _pystr(o[2])
                if key is None:
                    raise Unsupported('dictionary store with a symbolic key')
                if d.ty == 'kwargs':
                    items = dict(d.a['items'])
                    items[key] = v
                    o[1].env[t.value.id] = Val('kwargs', None, items=items)
                else:
                    items = [(k_, v_) for k_, v_ in d.a['items'] if _pystr(k_) != key] + [(o[2], v)]
                    o[1].env[t.value.id] = Val('dict', None, items=items)
                outs.append(('fall', o[1]))
            return outs
        raise Unsupported('assignment target ' + type(t).__name__)

    def setattr_val(self, recv, attr, v, st, node):
        for h in self.reg.attr_hooks:
            r = h(self, 'setattr', (recv, attr, v, node), st)
            if r is not None:
                return r
        if recv.ty == 'obj':
            a = mangle(attr, self.cur_fn.cls if self.cur_fn else None)
            view = self._view_or_none(recv)
            if view is not None and view.repmap is not None:
                r = view.repmap.store(self, st, recv, a, v)
                if r is not None:
                    return r
            q = self.repo.funcs.get('%s.%s.setter' % (recv.a['cls'], attr))
            if q is None:
                for b in self.repo.mro(recv.a['cls']):
                    if '%s.%s.setter' % (b, attr) in self.repo.funcs:
                        q = self.repo.funcs['%s.%s.setter' % (b, attr)]
                        break
            if q is not None:
                outs = self.call_function(q.qual, [recv, v], {}, st, node)
                return [('fall', o[1]) if o[0] == 'val' else o for o in outs]
            st.set_field(recv, a, v)
            return [('fall', st)]
        if recv.ty == 'tok' and attr == 'category' and isinstance(node.value, ast.Name):
            # Token is a value here; `tok.category = c` rebinds the local.  Sound only if the token is not shared:
            fr = recv.a.get('fresh', False)
            self.oblige('%s@L%d#token-mutated-is-fresh' % (self.cur.key if self.cur else '?', node.lineno), st,
                        fr if not isinstance(fr, bool) else BoolVal(fr), 'A')
            nc, some = ops.opt_parts(v)
            cz = IntVal(NONE_CAT) if some is None else (If(nc, NONE_CAT, some.z) if not is_false(nc) else some.z)
            st.env[node.value.id] = VTok(Tok.mk(Tok.text(recv.z), Tok.pos(recv.z), cz), fresh=fr)
            return [('fall', st)]
        raise Unsupported('attribute store on ' + recv.ty)

    def s_AugAssign(self, s, st):
        t = s.target
        load = ast.Name(id=t.id, ctx=ast.Load()) if isinstance(t, ast.Name) else \
            ast.Attribute(value=t.value, attr=t.attr, ctx=ast.Load())
        ast.copy_location(load, t)
        outs = []
        cur, raises = self.evs([load, s.value], st)
        outs += raises
        for c, (a, b) in cur:
            if a.ty == 'tok' and isinstance(s.op, ast.Add):
                rs = self.call_method_val(a, '__iadd__', [b], {}, c, s)
            else:
                rs = self.binop(s.op, a, b, c, s)
            for r in rs:
                if r[0] == 'raise':
                    outs.append(r)
                else:
                    outs += self.assign_target(t, r[2], r[1])
        return outs

    # ------------------------------------------------------------------ try
    def s_Try(self, s, st):
        if s.finalbody or s.orelse:
            raise Unsupported('try/finally or try/else')
        outs = []
        for o in self.block(s.body, st):
            if o[0] != 'raise':
                outs.append(o)
                continue
            handled = False
            for h in s.handlers:
                if self._handler_matches(h, o[2]):
                    c = o[1]
                    if h.name:
                        c.env[h.name] = Val('excinst', None, name=o[2])
                    outs += self.block(h.body, c)
                    handled = True
                    break
            if not handled:
                outs.append(o)
        return outs

    def _handler_matches(self, h, exc):
        if h.type is None:
            return True
        names = [e.id for e in h.type.elts] if isinstance(h.type, ast.Tuple) else [h.type.id]
        return exc in names or 'Exception' in names or 'BaseException' in names

    # ------------------------------------------------------------------ loops
    def loop_spec(self, node):
        fi = self.cur_fn
        if fi is None or self.cur is None or fi.qual != self.cur.qual:
            return None, None
        loops = [n for n in FuncInfo._own_nodes(fi.node) if isinstance(n, (ast.While, ast.For))]
        loops.sort(key=lambda n: (n.lineno, n.col_offset))
        k = [id(n) for n in loops].index(id(node))
        return self.cur.loops.get(k), k

    def _assigned_names(self, node):
        names = set()
        for n in ast.walk(node):
            if isinstance(n, ast.Name) and isinstance(n.ctx, ast.Store):
                names.add(n.id)
            elif isinstance(n, (ast.FunctionDef, ast.Lambda)) and n is not node:
                pass
            elif isinstance(n, ast.Call) and isinstance(n.func, ast.Attribute) and isinstance(n.func.value, ast.Name) \
                    and n.func.attr in ('append', 'extend', 'insert', 'remove', 'pop', 'clear', 'reverse'):
                names.add(n.func.value.id)       # value-semantics lists are rebound on mutation
            elif isinstance(n, ast.Attribute) and isinstance(n.ctx, ast.Store) and isinstance(n.value, ast.Name):
                names.add(n.value.id)            # tok.category = ...
        return names

    def _inv_ctx(self, st, extra=None):
        names = dict(extra or {})
        return Ctx(self, st, names, old=self.entry, old_names=self.entry_names, module=self.cur_fn.module,
                   use_locals=True)

    def _loop_prepare(self, node, st, spec, k, extra_names=None, ghost_k=None):
        """check the invariant on entry, havoc, assume the invariant; returns (head state, variant term)"""
        key = self.cur.key
        from .values import retype
        for nm, ty in (spec.ghost or {}).items():
            if nm in st.env:
                st.env[nm] = retype(st.env[nm], ty)
        ctx = self._inv_ctx(st, extra_names)
        for cl in spec.invariant:
            self.oblige('%s#loop%d.init.%s' % (key, k, cl.label), st, self.goal_of(self.spec.clause(cl.text, ctx), st),
                        'A')
        h = st.fork()
        for nm in sorted(self._assigned_names(node)):
            if nm in h.env:
                if h.env[nm].ty in ('obj',):
                    continue
                h.env[nm] = self.havoc_local(h.env[nm], nm)
            else:
                h.env[nm] = Val('undef')
        for path in (spec.modifies if spec.modifies is not None else self.cur.modifies):
            base, fld = path.split('.')
            v = h.env.get(base) or self.entry_names.get(base)
            if v is not None and v.ty == 'obj' and fld in h.heap[v.a['ref']]:
                h.set_field(v, fld, like(h.field(v, fld), fld))
        if h.ghost.get('$out') is not None and any(isinstance(x, (ast.Yield, ast.YieldFrom)) for x in ast.walk(node)):
            o = h.ghost['$out']
            h.ghost['$out'] = VSeq(fresh('out', o.z.sort()), o.a['elem'])
        names = dict(extra_names or {})
        if ghost_k is not None:
            kv = VI(fresh('_k', IntSort()))
            h.assume(kv.z >= 0)
            names['_k'] = kv
            h.ghost['_k'] = kv
            names['_k%d' % k] = kv
            h.ghost['_k%d' % k] = kv
        ctx_h = self._inv_ctx(h, names)
        for cl in spec.invariant:
            self.assume_clause(h, self.spec.clause(cl.text, ctx_h))
        for hk in self.reg.loop_hooks:
            hk(self, h)
        v0 = self.spec.ev_expr(spec.decreases, ctx_h).z if spec.decreases else None
        return h, v0, names

    def havoc_local(self, v, nm):
        if v.ty == 'list':
            raise Unsupported('static list %s modified in a loop (needs a symbolic list)' % nm)
        if v.ty == 'undef':
            return v
        return like(v, nm)

    def _loop_back(self, st, spec, k, v0, names):
        key = self.cur.key
        ctx = self._inv_ctx(st, names)
        for cl in spec.invariant:
            self.oblige('%s#loop%d.preserved.%s' % (key, k, cl.label), st,
                        self.goal_of(self.spec.clause(cl.text, ctx), st), 'A')
        if v0 is not None:
            v1 = self.spec.ev_expr(spec.decreases, ctx).z
            self.oblige('%s#loop%d.decreases' % (key, k), st, And(v1 < v0, v0 > 0),
                        'P' if 'C06' in self.cur.props else 'A', ('C06',) if 'C06' in self.cur.props else ())

    def s_While(self, s, st):
        if s.orelse:
            raise Unsupported('while/else')
        spec, k = self.loop_spec(s)
        if spec is None:
            raise Unsupported('loop at line %d has no invariant in the sidecar' % s.lineno)
        if not spec.decreases:
            raise Unsupported('while loop at line %d needs a decreases clause' % s.lineno)
        h, v0, names = self._loop_prepare(s, st, spec, k)
        outs, exits = [], []
        for o in self.ev(s.test, h):
            if o[0] == 'raise':
                outs.append(o)
                continue
            t, f = self.split(o[1], self.truth_of(o[2], o[1]))
            if f is not None:
                exits.append(f)
            if t is None:
                continue
            for b in self.block(s.body, t):
                if b[0] in ('fall', 'continue'):
                    self._loop_back(b[1], spec, k, v0, names)
                elif b[0] == 'break':
                    exits.append(b[1])
                else:
                    outs.append(b)
        return outs + [('fall', e) for e in exits]

    def s_For(self, s, st):
        if s.orelse:
            raise Unsupported('for/else')
        it = s.iter
        enum = False
        if isinstance(it, ast.Call) and isinstance(it.func, ast.Name) and it.func.id == 'enumerate' and \
                'enumerate' not in st.env:
            enum = True
            it = it.args[0]
        if isinstance(it, ast.Call) and isinstance(it.func, ast.Name) and it.func.id == 'range' and len(it.args) == 1:
            outs = []
            for o in self.ev(it.args[0], st):
                if o[0] == 'raise':
                    outs.append(o)
                    continue
                nz = simplify(o[2].z)
                if not z3.is_int_value(nz):
                    outs += self._for_symbolic(s, Val('range', nz), o[1], enum)
                    continue
                outs += self._unroll(s, [VI(i) for i in range(nz.as_long())], o[1], enum)
            return outs
        outs = []
        for o in self.ev(it, st):
            if o[0] == 'raise':
                outs.append(o)
                continue
            v = o[2]
            spec, _ = self.loop_spec(s)
            if spec is not None and v.ty in ('list', 'tuple') and v.a['items'] and \
                    all(x.ty == 'str' for x in v.a['items']):
                # a loop over a constant list of strings that has an invariant in the sidecar is cut, not unrolled
                from z3 import Concat as _C, Unit as _U
                zs = [_U(x.z) for x in v.a['items']]
                lit = _C(*zs) if len(zs) > 1 else zs[0]
                # the table gets a name (one defining equation) so that terms mentioning an item stay small
                from z3 import FreshConst as _FC
                tbl = _FC(lit.sort(), 'table')
                o[1].fact(tbl == lit)
                v = VSeq(tbl, 'str')
                o[1].ghost['_items'] = v
                lens = [len(to_py(x)) for x in o[2].a['items']]
                v.a['lenbounds'] = (min(lens), max(lens))
                v.a['table'] = [to_py(x) for x in o[2].a['items']]
            if v.ty in ('list', 'tuple'):
                outs += self._unroll(s, v.a['items'], o[1], enum)
            elif v.ty == 'const':
                py = v.a['py']
                if isinstance(py, PySet):
                    r = None
                    for hk in self.reg.attr_hooks:
                        r = hk(self, 'for-set', (s, py), o[1])
                        if r is not None:
                            break
                    if r is None:
                        raise Unsupported('iteration over a set (order unspecified), line %d' % s.lineno)
                    outs += r
                    continue
                items = list(py.items()) if isinstance(py, dict) else list(py)
                if isinstance(py, dict):
                    items = list(py.keys())
                outs += self._unroll(s, [lift(x) for x in items], o[1], enum)
            elif v.ty in ('seq', 'obj'):
                outs += self._for_symbolic(s, v, o[1], enum)
            else:
                raise Unsupported('for over ' + v.ty)
        return outs

    def _unroll(self, s, items, st, enum):
        cur = [st]
        outs = []
        for i, x in enumerate(items):
            nxt = []
            for c in cur:
                item = VTuple([VI(i), x]) if enum else x
                for a in self.assign_target(s.target, item, c):
                    if a[0] != 'fall':
                        outs.append(a)
                        continue
                    for b in self.block(s.body, a[1]):
                        if b[0] in ('fall', 'continue'):
                            nxt.append(b[1])
                        elif b[0] == 'break':
                            outs.append(('fall', b[1]))
                        else:
                            outs.append(b)
            cur = nxt
        return outs + [('fall', c) for c in cur]

    def _for_symbolic(self, s, v, st, enum):
        spec, k = self.loop_spec(s)
        if spec is None:
            raise Unsupported('for loop at line %d has no invariant in the sidecar' % s.lineno)
        st.ghost['_k'] = VI(0)
        kname = '_k%d' % k          # the counter under the loop's own ordinal too (visible to nested loops' invariants)
        h, v0, names = self._loop_prepare(s, st, spec, k, {'_k': VI(0), kname: VI(0)}, ghost_k=True)
        kv = names['_k']
        names[kname] = kv
        h.ghost[kname] = kv
        outs, exits = [], []
        steps = []
        if v.ty == 'range':
            t, f = self.split(h, kv.z < v.z)
            if f is not None:
                exits.append(f)
            if t is not None:
                steps.append((t, kv))
            if v0 is None:
                v0 = v.z - kv.z
        elif v.ty == 'seq':
            t, f = self.split(h, kv.z < Length(v.z))
            if f is not None:
                exits.append(f)
            if t is not None:
                self.touch(t, kv.z)
                item = elem_val(v.z[kv.z], v.a['elem'])
                # prefix lemma of the iteration (sequence theory fact, supplied because both solvers are slow on it):
                from .sorts import pyslice as _ps
                t.fact(_ps(v.z, None, kv.z + 1) == Concat(_ps(v.z, None, kv.z), Unit(v.z[kv.z])))
                t.fact(Length(_ps(v.z, None, kv.z)) == kv.z)
                for hk in self.reg.attr_hooks:
                    hk(self, 'seq-item', (v, kv.z, item), t)
                if v.a.get('lenbounds'):       # summary of the constant table the item is drawn from
                    lo_, hi_ = v.a['lenbounds']
                    t.fact(And(Length(item.z) >= lo_, Length(item.z) <= hi_))
                if v.a['elem'] == 'item':
                    # an element of a node-level view is a wrapped node or a raw text leaf: one path each
                    from .sorts import Item as _It
                    tw, tr = self.split(t, _It.is_wrapped(item.z))
                    if tw is not None:
                        steps.append((tw, Val('node', _It.node(item.z))))
                    if tr is not None:
                        steps.append((tr, VE(_It.leaf(item.z))))
                else:
                    steps.append((t, item))
            if v0 is None:
                v0 = Length(v.z) - kv.z
                spec_dec = None
        else:
            for o in self.call_method_val(v, '__next__', [], {}, h, s):
                if o[0] == 'raise':
                    if o[2] == 'StopIteration':
                        exits.append(o[1])
                    else:
                        outs.append(o)
                else:
                    steps.append((o[1], o[2]))
        for t, item in steps:
            item = VTuple([kv, item]) if enum else item
            for a in self.assign_target(s.target, item, t):
                if a[0] != 'fall':
                    outs.append(a)
                    continue
                for b in self.block(s.body, a[1]):
                    if b[0] in ('fall', 'continue'):
                        n2 = dict(names)
                        n2['_k'] = VI(kv.z + 1)
                        n2[kname] = n2['_k']
                        b[1].ghost['_k'] = n2['_k']
                        b[1].ghost[kname] = n2['_k']
                        if spec.decreases:
                            self._loop_back(b[1], spec, k, v0, n2)
                        else:
                            self._loop_back(b[1], spec, k, None, n2)
                    elif b[0] == 'break':
                        exits.append(b[1])
                    else:
                        outs.append(b)
        return outs + [('fall', e) for e in exits]
