"""Symbolic values and symbolic state."""
import itertools

import z3
from z3 import (IntVal, BoolVal, Length, Concat, Unit, Empty, If, And, Or, Not, Implies, Const, Function,
                IntSort, BoolSort, is_true, is_false, simplify, SubSeq)

from .sorts import Str, Tok, TokSeq, E, ESeq, IntSeq, StrSeq, pystr, seqsort, SORTS, NONE_CAT
from .loader import PySet, ClassRef, FuncRef, EnumVal, TokenConst


class Unsupported(Exception):
    """construct outside the executable subset: the function is out of reach (never a violation)"""


class Val:
    __slots__ = ('ty', 'z', 'a')

    def __init__(self, ty, z=None, **a):
        self.ty, self.z, self.a = ty, z, a

    def get(self, k, d=None):
        return self.a.get(k, d)

    def __repr__(self):
        return 'Val(%s,%s,%s)' % (self.ty, self.z, {k: v for k, v in self.a.items() if k != 'env'})


def VI(z):
    return Val('int', IntVal(z) if isinstance(z, int) else z)


def VB(z):
    return Val('bool', BoolVal(z) if isinstance(z, bool) else z)


def VS(z):
    return Val('str', pystr(z) if isinstance(z, str) else z)


VNone = Val('none')


def VTok(z, fresh=False):
    return Val('tok', z, fresh=fresh)


def VOpt(isnone, some):
    """optional value: `some` is meaningful only when not isnone"""
    if isinstance(isnone, bool):
        isnone = BoolVal(isnone)
    if is_true(isnone):
        return VNone
    if is_false(isnone):
        return some
    return Val('opt', None, isnone=isnone, some=some)


def VTuple(items):
    return Val('tuple', None, items=list(items))


def VSeq(z, elem):
    return Val('seq', z, elem=elem)


def VList(items):
    return Val('list', None, items=list(items))


def VObj(ref, cls):
    return Val('obj', None, ref=ref, cls=cls)


def VConst(py):
    return Val('const', None, py=py)


def VE(z):
    return Val('E', z)


def lift(py):
    """python constant (from the loader's dump or an ast.Constant) -> Val"""
    if py is None:
        return VNone
    if isinstance(py, bool):
        return VB(py)
    if isinstance(py, ClassRef):
        return Val('cls', None, name=str(py))
    if isinstance(py, FuncRef):
        return Val('func', None, qual=str(py))
    if isinstance(py, int):
        return VI(int(py))
    if isinstance(py, str):
        return VS(py)
    if isinstance(py, TokenConst):
        return VTok(Tok.mk(pystr(py[0]), IntVal(py[1] if py[1] is not None else 0),
                           IntVal(NONE_CAT if py[2] is None else py[2])), fresh=False)
    if isinstance(py, (tuple, list, frozenset, set, dict)):
        return VConst(py)
    raise Unsupported('constant %r' % (py,))


def elem_val(z, elem):
    if elem == 'tok':
        return VTok(z)
    if elem == 'E':
        return VE(z)
    if elem == 'int':
        return VI(z)
    if elem == 'str':
        return VS(z)
    if elem in ('item', 'node'):
        return Val(elem, z)
    raise Unsupported('element type ' + elem)


def elem_z(v, elem):
    """z3 term of element type `elem` for value v"""
    if elem == 'tok' and v.ty == 'tok':
        return v.z
    if elem == 'E' and v.ty == 'E':
        return v.z
    if elem == 'int' and v.ty == 'int':
        return v.z
    if elem == 'str' and v.ty in ('str', 'tok'):
        return strz(v)
    if elem in ('item', 'node') and v.ty == elem:
        return v.z
    if elem == 'item' and v.ty == 'node':
        from .sorts import Item
        return Item.wrapped(v.z)
    if elem == 'item' and v.ty == 'E':
        from .sorts import Item
        return Item.raw(v.z)
    raise Unsupported('value %s as element %s' % (v.ty, elem))


def strz(v):
    """text of a str-like value"""
    if v.ty == 'str':
        return v.z
    if v.ty == 'tok':
        return Tok.text(v.z)
    raise Unsupported('not str-like: ' + v.ty)


_counter = itertools.count()


def fresh(name, sort):
    return Const('%s!%d' % (name, next(_counter)), sort)


FACT_SINK = [None]


class St:
    """symbolic state of one path"""
    __slots__ = ('env', 'heap', 'pc', 'facts', 'ghost', 'quants', 'interest', 'trace')

    def __init__(self):
        self.env = {}
        self.heap = {}      # ref -> {field: Val}
        self.pc = []        # path condition (branch conditions, assumed pre/postconditions)
        self.facts = []     # engine-supplied axiom instances
        self.ghost = {}     # ghost variables ($out, anchors, ...)
        self.quants = []    # lazily instantiated universally quantified assumptions
        self.interest = {}  # key -> (seq term or None, index term)
        self.trace = []     # branch decisions (for reports)

    def fork(self):
        s = St()
        s.env = dict(self.env)
        s.heap = {r: dict(f) for r, f in self.heap.items()}
        s.pc = list(self.pc)
        s.facts = list(self.facts)
        s.ghost = dict(self.ghost)
        s.quants = list(self.quants)
        s.interest = dict(self.interest)
        s.trace = list(self.trace)
        return s

    def assume(self, z):
        if z is None or is_true(z):
            return
        self.pc.append(z)

    def fact(self, z):
        # while a quantified assumption is being instantiated, the specification is evaluated in the state where it was
        # assumed (its field values), but definitional facts produced on the way belong to the path being extended
        tgt = FACT_SINK[0] if FACT_SINK[0] is not None else self
        if not is_true(z):
            tgt.facts.append(z)

    def hyps(self):
        return self.pc + self.facts

    def new_obj(self, cls, fields):
        ref = 'o%d' % next(_counter)
        self.heap[ref] = dict(fields)
        return VObj(ref, cls)

    def field(self, obj, name):
        return self.heap[obj.a['ref']][name]

    def set_field(self, obj, name, v):
        self.heap[obj.a['ref']][name] = v


def like(v, name='h'):
    """a fresh unconstrained value of the same shape as v (loop havoc)"""
    if v.ty == 'int':
        return VI(fresh(name, IntSort()))
    if v.ty == 'bool':
        return VB(fresh(name, BoolSort()))
    if v.ty == 'str':
        return VS(fresh(name, Str))
    if v.ty == 'tok':
        return VTok(fresh(name, Tok), fresh=v.a.get('fresh', False))
    if v.ty == 'E':
        return VE(fresh(name, E))
    if v.ty == 'seq':
        return VSeq(fresh(name, v.z.sort()), v.a['elem'])
    if v.ty == 'opt':
        return Val('opt', None, isnone=fresh(name + '_none', BoolSort()), some=like(v.a['some'], name))
    if v.ty == 'none':
        return v
    if v.ty == 'tuple':
        return VTuple([like(x, name) for x in v.a['items']])
    if v.ty in ('const', 'func', 'cls', 'obj'):
        return v
    if v.ty == 'hlist':
        return Val('hlist', None, prefix=v.a['prefix'], tail=like(v.a['tail'], name), elem=v.a['elem'])
    raise Unsupported('havoc of ' + v.ty)


def retype(v, ty):
    """convert a static list value to the symbolic list type a loop specification declares for it"""
    from z3 import Concat, Unit, Empty
    from .sorts import seqsort
    if ty.startswith('seq['):
        el = ty[4:-1]
        if v.ty == 'seq':
            return v
        if v.ty == 'list':
            zs = [Unit(elem_z(x, el)) for x in v.a['items']]
            z = Empty(seqsort(el)) if not zs else (zs[0] if len(zs) == 1 else Concat(*zs))
            return VSeq(z, el)
    if ty.startswith('hlist['):
        n, el = ty[6:-1].split(',')
        n = int(n)
        if v.ty == 'hlist':
            return v
        if v.ty == 'list' and len(v.a['items']) >= n:
            rest = VList(v.a['items'][n:])
            return Val('hlist', None, prefix=v.a['items'][:n], tail=retype(rest, 'seq[%s]' % el.strip()), elem=el.strip())
    raise Unsupported('cannot view %s as %s' % (v.ty, ty))
