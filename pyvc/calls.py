"""Calls: contracts at call sites, inlining of small helpers, builtins, str/list/dict methods."""
import ast

import z3
from z3 import (IntVal, BoolVal, Length, If, And, Or, Not, Implies, is_true, is_false, simplify, Concat, Unit, Empty,
                PrefixOf, SuffixOf, IndexOf, SubSeq, IntSort, BoolSort, Function)

from . import ops
from .sorts import Str, Tok, seqsort, NONE_CAT, pystr, zmin, zmax
from .values import (Val, VI, VB, VS, VNone, VTok, VOpt, VTuple, VSeq, VList, VObj, VConst, VE, lift, strz, St,
                     Unsupported, fresh, elem_val, elem_z)

str_hash = Function('str_hash', Str, IntSort())
BUILTIN_TYPES = {'int', 'str', 'list', 'tuple', 'bool'}


class CallMixin:
    def x_Call(self, n, st):
        for h in self.reg.call_hooks:
            r = h(self, n, st)
            if r is not None:
                return r
        outs = []
        for o in self.ev(n.func, st):
            if o[0] == 'raise':
                outs.append(o)
                continue
            fv = o[2]
            nodes = list(n.args) + [k.value for k in n.keywords]
            cur, raises = self.evs(nodes, o[1])
            outs += raises
            for s, vs in cur:
                args = []
                for v in vs[:len(n.args)]:
                    if v.ty == 'star' and v.a['v'].ty in ('list', 'tuple'):
                        args += v.a['v'].a['items']
                    elif v.ty == 'star' and v.a['v'].ty == 'const':
                        args += [lift(x) for x in v.a['v'].a['py']]
                    else:
                        args.append(v)
                kwargs = {}
                for k, v in zip(n.keywords, vs[len(n.args):]):
                    if k.arg is None:
                        if v.ty != 'kwargs':
                            raise Unsupported('** of ' + v.ty)
                        kwargs.update(v.a['items'])
                    else:
                        kwargs[k.arg] = v
                outs += self.call_value(fv, args, kwargs, s, n)
        return outs

    def call_value(self, fv, args, kwargs, st, node):
        t = fv.ty
        if t == 'builtin':
            return self.builtin_call(fv.a['name'], args, kwargs, st, node)
        if t == 'func':
            a = fv.a
            if 'qual' in a:
                if a.get('bound') is not None:
                    args = [a['bound']] + args
                elif a.get('boundcls') is not None:
                    args = [a['boundcls']] + args
                return self.call_function(a['qual'], args, kwargs, st, node)
            if 'lam' in a:
                return self.inline_lambda(fv, args, st)
            if 'defnode' in a:
                return self.inline_def(fv, args, kwargs, st)
            if 'strmethod' in a:
                return self.str_method(a['bound'], a['strmethod'], args, kwargs, st, node)
            if 'listmethod' in a:
                return self.list_method(a['bound'], a['listmethod'], args, st, a.get('target'))
            if 'constmethod' in a:
                return self.const_method(a['bound'], a['constmethod'], args, st)
            if 'abstract' in a:
                for h in self.reg.attr_hooks:
                    r = h(self, 'callback', (fv, args), st)
                    if r is not None:
                        return r
                raise Unsupported('call of abstract callback ' + a['abstract'])
            if 'wrapper' in a:
                return a['wrapper'](self, args, kwargs, st, node)
            if 'builtinmethod' in a:
                base, meth = a['builtinmethod']
                for h in self.reg.attr_hooks:
                    r = h(self, 'builtinmethod', (base, meth, a['bound'], args, kwargs), st)
                    if r is not None:
                        return r
                if base == 'builtins.object' and meth == '__init__':
                    return [('val', st, VNone)]
                raise Unsupported('%s.%s on %s' % (base, meth, a['bound'].ty))
        if t == 'cls':
            return self.construct(fv.a['name'], args, kwargs, st, node)
        if t == 'exc':
            return [('val', st, Val('excinst', None, name=fv.a['name']))]
        if t == 'obj':
            return self.call_method_val(fv, '__call__', args, kwargs, st, node)
        raise Unsupported('call of a %s value' % t)

    # ------------------------------------------------------------------ repository functions
    def call_function(self, qual, args, kwargs, st, node):
        fi = self.repo.func(qual)
        for h in self.reg.attr_hooks:
            r = h(self, 'decorated-call', (fi, args, kwargs, node), st)
            if r is not None:
                return r
        binding = self.bind_args(fi, args, kwargs, st)
        c = self.select_contract(qual, binding)
        if c is not None:
            return self.apply_contract(c, binding, st, node)
        if qual in self.reg.inline:
            return self.inline(fi, binding, st)
        # a helper without a contract and without loops (e.g. one introduced by an edit) is executed in place
        import ast as _ast
        from .loader import FuncInfo as _FI
        if not any(isinstance(n, (_ast.While, _ast.For)) for n in _FI._own_nodes(fi.node)) and not fi.is_generator \
                and self.inline_depth < 3:
            return self.inline(fi, binding, st)
        raise Unsupported('call of %s which has no contract' % qual)

    def call_method_val(self, recv, name, args, kwargs, st, node):
        if recv.ty == 'obj':
            q = self.repo.resolve_method(recv.a['cls'], name)
            if q is None:
                raise Unsupported('method %s of %s' % (name, recv.a['cls']))
            return self.call_function(q, [recv] + args, kwargs, st, node)
        if recv.ty == 'tok':
            q = self.repo.resolve_method('utils.Token', name)
            if q is None:
                return self.str_method(VS(Tok.text(recv.z)), name, args, kwargs, st, node)
            return self.call_function(q, [recv] + args, kwargs, st, node)
        raise Unsupported('method %s on %s' % (name, recv.ty))

    def call_str(self, v, st):
        for h in self.reg.attr_hooks:
            r = h(self, 'str', (v,), st)
            if r is not None:
                return r
        if v.ty == 'obj':
            q = self.repo.resolve_method(v.a['cls'], '__str__')
            if q is None:
                # object.__str__: the text contains the object's address (frame scan F5 lists these sites)
                return [('val', st, VS(fresh('addr_repr', Str)))]
            return self.call_function(q, [v], {}, st, None)
        return [('val', st, VS(ops.to_str(v)))]

    def construct(self, cls, args, kwargs, st, node):
        if cls in self.reg.ctors:
            return self.reg.ctors[cls](self, st, args, kwargs, node)
        for meth in ('__new__', '__init__'):
            q = self.repo.resolve_method(cls, meth)
            if q is not None and (q in self.reg.contracts or q in self.reg.inline):
                clsval = Val('cls', None, name=cls)
                if meth == '__new__':
                    return self.call_function(q, [clsval] + args, kwargs, st, node)
                view = None
                for b in self.repo.mro(cls):
                    if b in self.reg.views_by_qual:
                        view = self.reg.views_by_qual[b]
                        break
                obj = st.new_obj(cls, {})
                if view is not None:
                    obj.a['view'] = view.short
                    for f, fty in view.fields.items():
                        st.set_field(obj, f, Val('unset', None, fty=fty))     # instance attribute not assigned yet
                for h in self.reg.attr_hooks:
                    h(self, 'constructed', (cls, obj, args, kwargs), st)
                outs = []
                for o in self.call_function(q, [obj] + args, kwargs, st, node):
                    outs.append(o if o[0] == 'raise' else ('val', o[1], obj))
                return outs
        raise Unsupported('constructor of ' + cls)

    # ------------------------------------------------------------------ inlining
    def inline(self, fi, binding, st):
        if self.inline_depth > 6:
            raise Unsupported('inline depth')
        saved_env, saved_fn = st.env, self.cur_fn
        self.cur_fn = fi
        self.inline_depth += 1
        try:
            st.env = dict(binding)
            outs = []
            for o in self.block(fi.node.body, st):
                o[1].env = dict(saved_env)
                if o[0] == 'fall':
                    outs.append(('val', o[1], VNone))
                elif o[0] == 'return':
                    outs.append(('val', o[1], o[2]))
                elif o[0] == 'raise':
                    outs.append(o)
                else:
                    raise Unsupported('break/continue escaping a function')
            return outs
        finally:
            self.cur_fn = saved_fn
            self.inline_depth -= 1

    def inline_lambda(self, fv, args, st):
        lam = fv.a['lam']
        params = [x.arg for x in lam.args.args]
        if len(params) != len(args):
            raise Unsupported('lambda arity')
        saved = st.env
        st.env = dict(fv.a['env'])
        st.env.update(zip(params, args))
        outs = self.ev(lam.body, st)
        for o in outs:
            o[1].env = dict(saved)
        return outs

    def inline_def(self, fv, args, kwargs, st):
        node = fv.a['defnode']
        binding = self.bind_args(None, args, kwargs, st, node=node, name=node.name)
        saved = st.env
        st.env = dict(fv.a['env'])
        st.env.update(binding)
        outs = []
        for o in self.block(node.body, st):
            o[1].env = dict(saved)
            if o[0] == 'fall':
                outs.append(('val', o[1], VNone))
            elif o[0] == 'return':
                outs.append(('val', o[1], o[2]))
            elif o[0] == 'raise':
                outs.append(o)
            else:
                raise Unsupported('break/continue escaping a function')
        return outs

    # ------------------------------------------------------------------ builtins
    def builtin_call(self, name, args, kwargs, st, node):
        for h in self.reg.attr_hooks:
            r = h(self, 'builtin', (name, args, kwargs, node), st)
            if r is not None:
                return r
        if name == 'len':
            v = args[0]
            if v.ty == 'obj':
                return self.call_method_val(v, '__len__', [], {}, st, node)
            return self.with_op(st, lambda g: ops.length(v, g))
        if name == 'isinstance':
            return self.isinstance_(args[0], args[1], st)
        if name == 'bool':
            return [('val', st, VB(simplify(self.truth_of(args[0], st))))]
        if name == 'str':
            return self.call_str(args[0], st)
        if name == 'next':
            v = args[0]
            if v.ty == 'obj':
                return self.call_method_val(v, '__next__', [], {}, st, node)
            raise Unsupported('next() of ' + v.ty)
        if name == 'iter':
            v = args[0]
            if v.ty in ('obj', 'seq', 'list', 'iter'):
                return [('val', st, v)]
            raise Unsupported('iter() of ' + v.ty)
        if name == 'list':
            if not args:
                return [('val', st, VList([]))]
            v = args[0]
            if v.ty in ('seq', 'list'):
                return [('val', st, v)]
            if v.ty == 'tuple':
                return [('val', st, VList(v.a['items']))]
            if v.ty == 'const' and isinstance(v.a['py'], (tuple, list)):
                return [('val', st, VList([lift(x) for x in v.a['py']]))]
            raise Unsupported('list() of ' + v.ty)
        if name == 'tuple':
            v = args[0]
            if v.ty in ('list', 'tuple'):
                return [('val', st, VTuple(v.a['items']))]
            raise Unsupported('tuple() of ' + v.ty)
        if name == 'min':
            return [('val', st, VI(zmin(args[0].z, args[1].z)))]
        if name == 'max':
            if len(args) == 1 and args[0].ty == 'const':
                return [('val', st, lift(max(args[0].a['py'])))]
            return [('val', st, VI(zmax(args[0].z, args[1].z)))]
        if name == 'hash':
            return [('val', st, VI(str_hash(strz(args[0]))))]
        if name == 'hasattr':
            return [('val', st, VB(self.hasattr_(args[0], args[1])))]
        if name == 'getattr':
            nm = _pystr(args[1])
            if nm is None:
                raise Unsupported('getattr with symbolic name')
            outs = self.getattr_val(args[0], nm, st, node)
            if len(args) == 3:
                outs = [o if o[0] == 'val' or o[2] != 'AttributeError' else ('val', o[1], args[2]) for o in outs]
            return outs
        if name == 'super':
            selfv = st.env.get('self') or st.env.get('cls')
            return [('val', st, Val('super', None, cls=self.cur_fn.cls, obj=selfv))]
        if name == 'sorted':
            return self.sorted_(args, kwargs, st)
        if name == 'repr':
            raise Unsupported('repr()')
        raise Unsupported('builtin ' + name)

    def sorted_(self, args, kwargs, st):
        """sorted() of a constant container with a key computable on constants: evaluated concretely.
        A total key makes the result independent of the container's iteration order; ties on a set are rejected."""
        v = args[0]
        if v.ty != 'const' or isinstance(v.a['py'], dict):
            raise Unsupported('sorted() of ' + v.ty)
        items = list(v.a['py'])
        key = kwargs.get('key')
        rev = kwargs.get('reverse')
        revb = False
        if rev is not None:
            rz = simplify(ops.truth(rev))
            if not (is_true(rz) or is_false(rz)):
                raise Unsupported('symbolic reverse=')
            revb = is_true(rz)
        keys = []
        for x in items:
            if key is None:
                keys.append(x)
                continue
            outs = self.call_value(key, [lift(x)], {}, st.fork(), None)
            if len(outs) != 1 or outs[0][0] != 'val':
                raise Unsupported('sort key forks')
            keys.append(to_py(outs[0][2]))
        from .loader import PySet
        if isinstance(v.a['py'], PySet) and len(set(keys)) != len(keys):
            raise Unsupported('sorted() of a set with tied keys: order depends on the hash seed')
        order = sorted(range(len(items)), key=lambda i: keys[i], reverse=revb)
        return [('val', st, VList([lift(items[i]) for i in order]))]

    def hasattr_(self, v, name):
        nm = _pystr(name)
        if v.ty in ('seq', 'list', 'tuple', 'str', 'tok'):
            return nm in ('__iter__', '__len__', '__getitem__', '__contains__')
        if v.ty == 'obj':
            if nm in self.entry_fields(v):
                return True
            return self.repo.resolve_method(v.a['cls'], nm) is not None
        if v.ty in ('int', 'none', 'bool'):
            return False
        for h in self.reg.attr_hooks:
            r = h(self, 'hasattr', (v, nm), None)
            if r is not None:
                return r
        raise Unsupported('hasattr on ' + v.ty)

    def entry_fields(self, v):
        return ()

    def isinstance_(self, v, T, st):
        types = T.a['items'] if T.ty == 'tuple' else [T]
        if v.ty == 'opt':
            t, f = self.split(st, v.a['isnone'])
            outs = []
            if t is not None:
                outs.append(('val', t, VB(False)))
            if f is not None:
                outs += self.isinstance_(v.a['some'], T, f)
            return outs
        res = False
        for t in types:
            r = self._isinst1(v, t, st)
            if r is None:
                for h in self.reg.attr_hooks:
                    z = h(self, 'isinstance', (v, t), st)
                    if z is not None:
                        r = z
                        break
                if r is None:
                    raise Unsupported('isinstance(%s, %s)' % (v.ty, t.a))
            if r is True:
                res = True
                break
            if r is not False:      # symbolic
                res = r if res is False else Or(res, r)
        return [('val', st, VB(res if isinstance(res, bool) else simplify(res)))]

    def _isinst1(self, v, t, st):
        if t.ty == 'builtin':
            n = t.a['name']
            if n == 'int':
                return v.ty in ('int', 'bool')
            if n == 'str':
                if v.ty in ('str', 'tok'):
                    return True
                if v.ty == 'obj':
                    return 'builtins.str' in self.repo.mro(v.a['cls'])
                if v.ty in ('int', 'bool', 'none', 'seq', 'list', 'tuple', 'slice', 'const'):
                    return False
                return None
            if n == 'list':
                if v.ty in ('seq', 'list'):
                    return True
                if v.ty == 'obj':
                    return 'builtins.list' in self.repo.mro(v.a['cls'])
                return False
            if n == 'tuple':
                return v.ty == 'tuple' or (v.ty == 'const' and isinstance(v.a['py'], tuple))
            if n == 'bool':
                return v.ty == 'bool'
            return None
        if t.ty == 'cls':
            cn = t.a['name']
            if v.ty == 'tok':
                return cn == 'utils.Token'
            if v.ty in ('str', 'int', 'bool', 'none', 'seq', 'list', 'tuple', 'slice', 'const'):
                return False
            if v.ty == 'obj':
                return cn in self.repo.mro(v.a['cls'])
            return None
        return None

    # ------------------------------------------------------------------ str / list / const methods
    def str_method(self, recv, name, args, kwargs, st, node):
        s = strz(recv)
        if name == 'startswith':
            return [('val', st, VB(PrefixOf(strz(args[0]), s)))]
        if name == 'endswith':
            return [('val', st, VB(SuffixOf(strz(args[0]), s)))]
        if name == 'isspace':
            return [('val', st, VB(ops.isspace_z(s)))]
        if name in ('strip', 'lstrip', 'rstrip'):
            if args or kwargs:
                raise Unsupported('strip with arguments')
            return [('val', st, VS(ops.strip_z(s, name)))]
        if name == 'find':
            return [('val', st, VI(IndexOf(s, strz(args[0]), 0)))]
        if name == 'join':
            for h in self.reg.attr_hooks:
                r = h(self, 'join', (recv, args[0], node), st)
                if r is not None:
                    return r
            v = args[0]
            if v.ty == 'seq' and v.a['elem'] == 'str':
                raise Unsupported('join of symbolic str list')
            raise Unsupported('str.join of ' + v.ty)
        if name == 'format':
            raise Unsupported('str.format')
        raise Unsupported('str method ' + name)

    def list_method(self, recv, name, args, st, target):
        def store(newv, st_=None):
            s_ = st_ if st_ is not None else st
            tgt = target.value if isinstance(target, ast.Attribute) else None
            if isinstance(tgt, ast.Name):
                s_.env[tgt.id] = newv
                return
            if isinstance(tgt, ast.Attribute):
                self.assign_target(tgt, newv, s_, must_single=True)
                return
            raise Unsupported('mutation of a temporary list')
        if recv.ty == 'seq':
            el = recv.a['elem']
            if el == 'E' and name == 'append' and args[0].ty == 'obj':
                args = [self.coerce(args[0], 'E', st)]
            if name == 'append':
                xz = elem_z(args[0], el)
                new = Concat(recv.z, Unit(xz))
                store(VSeq(new, el))
                for h in self.reg.attr_hooks:
                    h(self, 'appended', (recv.z, xz, new, el), st)
                return [('val', st, VNone)]
            if name == 'extend' and args[0].ty == 'comp':
                args = [self.map_identity(args[0], st)]
            if name == 'extend':
                v = args[0]
                if v.ty == 'seq' and v.a['elem'] == el:
                    store(VSeq(Concat(recv.z, v.z), el))
                    return [('val', st, VNone)]
                if v.ty in ('list', 'tuple'):
                    z = recv.z
                    for x in v.a['items']:
                        z = Concat(z, Unit(elem_z(x, el)))
                    store(VSeq(z, el))
                    return [('val', st, VNone)]
        if recv.ty == 'seq' and name in ('insert', 'index', 'remove', 'pop', 'reverse', 'clear'):
            r = self.seq_method(recv, name, args, st, store)
            if r is not None:
                return r
        if recv.ty == 'hlist' and name == 'append':
            t = recv.a['tail']
            xz = elem_z(args[0], recv.a['elem'])
            new = Concat(t.z, Unit(xz))
            store(Val('hlist', None, prefix=recv.a['prefix'], elem=recv.a['elem'], tail=VSeq(new, recv.a['elem'])))
            for h in self.reg.attr_hooks:
                h(self, 'appended', (t.z, xz, new, recv.a['elem']), st)
            return [('val', st, VNone)]
        if recv.ty == 'list':
            items = recv.a['items']
            if name == 'append':
                store(VList(items + [args[0]]))
                return [('val', st, VNone)]
            if name == 'extend' and args[0].ty in ('list', 'tuple'):
                store(VList(items + args[0].a['items']))
                return [('val', st, VNone)]
        if recv.ty == 'kwargs':
            from .sorts import pystr as _ps
            if name == 'items':
                return [('val', st, VTuple([VTuple([VS(_ps(k)), v]) for k, v in recv.a['items'].items()]))]
            if name == 'keys':
                return [('val', st, VTuple([VS(_ps(k)) for k in recv.a['items']]))]
        if recv.ty == 'dict':
            if name == 'items':
                return [('val', st, VTuple([VTuple([k, v]) for k, v in recv.a['items']]))]
            if name == 'keys':
                return [('val', st, VTuple([k for k, _ in recv.a['items']]))]
            if name == 'values':
                return [('val', st, VTuple([v for _, v in recv.a['items']]))]
        for h in self.reg.attr_hooks:
            r = h(self, 'listmethod', (recv, name, args, target, store), st)
            if r is not None:
                return r
        raise Unsupported('list method %s on %s' % (name, recv.ty))

    def map_identity(self, comp, st):
        """`f(x) for x in xs` over a symbolic sequence where f leaves every element unchanged: proved for an arbitrary
        element (skolem index) as an obligation, then the mapped sequence is xs itself"""
        xs = comp.a['iter']
        if xs.ty in ('list', 'tuple', 'const'):
            xs2 = self._as_seq(xs, 'E')
            if xs2 is None:
                raise Unsupported('comprehension over ' + xs.ty)
            xs = xs2
        if xs.ty != 'seq':
            raise Unsupported('comprehension over ' + xs.ty)
        k = fresh('map_k', IntSort())
        probe = st.fork()
        probe.assume(And(0 <= k, k < Length(xs.z)))
        self.touch(probe, k)
        x = elem_val(xs.z[k], xs.a['elem'])
        for h in self.reg.attr_hooks:
            h(self, 'seq-item', (xs, k, x), probe)
        saved = probe.env
        probe.env = dict(probe.env)
        probe.env[comp.a['var']] = x
        outs = self.ev(comp.a['elt'], probe)
        for o in outs:
            if o[0] == 'raise':
                self.oblige('%s#comprehension-element-cannot-raise[%s]' % (self.cur.key, o[2]), o[1], BoolVal(False), 'A')
            else:
                v = o[2]
                same = v.z == x.z if v.ty == x.ty and v.z is not None else BoolVal(False)
                self.oblige('%s#comprehension-leaves-elements-unchanged' % self.cur.key, o[1], same, 'A')
        return xs

    def seq_method(self, recv, name, args, st, store):
        """list.insert / index / remove / pop / reverse / clear on a symbolic sequence (python semantics;
        `==` on expressions is textual, as TexExpr.__eq__ is)"""
        from .spec import QBool
        from .sorts import norm_index, E as ESort
        el = recv.a['elem']
        if el == 'E':       # an object under construction stored into a list of expressions is published
            args = [self.coerce(a, 'E', st) if a.ty == 'obj' else a for a in args]
        S = recv.z
        n = Length(S)

        def same(a, b):
            if el == 'E':
                return ops.ser(a) == ops.ser(b)
            return a == b
        if name == 'clear':
            store(VSeq(Empty(S.sort()), el))
            return [('val', st, VNone)]
        if name == 'insert':
            i, x = args[0], elem_z(args[1], el)
            ii = norm_index(i.z, n)
            new = Concat(SubSeq(S, 0, ii), Unit(x), SubSeq(S, ii, n - ii))
            st.fact(Length(new) == n + 1)
            store(VSeq(new, el))
            for h in self.reg.attr_hooks:
                h(self, 'inserted', (S, ii, x, new, el), st)
            return [('val', st, VNone)]
        if name in ('index', 'remove'):
            x = elem_z(args[0], el)
            r = fresh('idx', IntSort())
            found = st.fork()
            found.assume(And(0 <= r, r < n, same(S[r], x)))
            self.assume_clause(found, [QBool(BoolVal(True), IntVal(0), r, lambda j: Not(same(S[j], x)))])
            self.touch(found, r)
            missing = st
            self.assume_clause(missing, [QBool(BoolVal(True), IntVal(0), n, lambda j: Not(same(S[j], x)))])
            outs = []
            from .smt import quick_sat
            if quick_sat(missing.hyps(), self.feas_ms):
                outs.append(('raise', missing, 'ValueError'))
            if quick_sat(found.hyps(), self.feas_ms):
                if name == 'index':
                    outs.append(('val', found, VI(r)))
                else:
                    new = Concat(SubSeq(S, 0, r), SubSeq(S, r + 1, n - r - 1))
                    found.fact(Length(new) == n - 1)
                    found.ghost['$removed_at'] = VI(r)
                    # store through the forked state
                    saved = store.__closure__
                    outs.append(('store', found, VSeq(new, el)))
            return self._finish_store(outs, store, st)
        if name == 'pop':
            i = args[0] if args else VI(-1)
            g = []
            ops.guard(g, And(i.z >= -n, i.z < n), 'IndexError')
            ii = If(i.z < 0, i.z + n, i.z)
            outs = []
            for o in self.finish(st, g, elem_val(S[ii], el)):
                if o[0] == 'val':
                    new = Concat(SubSeq(S, 0, ii), SubSeq(S, ii + 1, n - ii - 1))
                    o[1].fact(Length(new) == n - 1)
                    outs.append(('store', o[1], VSeq(new, el), o[2]))
                else:
                    outs.append(o)
            return self._finish_store(outs, store, st)
        if name == 'reverse':
            new = fresh('reversed', S.sort())
            st.fact(Length(new) == n)
            self.assume_clause(st, [QBool(BoolVal(True), IntVal(0), n, lambda j: new[j] == S[n - 1 - j])])
            store(VSeq(new, el))
            return [('val', st, VNone)]
        return None

    def _finish_store(self, outs, store, st0):
        """perform the deferred list stores of forked outcomes (the store closure writes into the state it is given)"""
        res = []
        for o in outs:
            if o[0] != 'store':
                res.append(o)
                continue
            s1, newv = o[1], o[2]
            store(newv, s1)
            res.append(('val', s1, o[3] if len(o) > 3 else VNone))
        return res

    def const_method(self, recv, name, args, st):
        py = recv.a['py']
        if isinstance(py, dict):
            if name == 'keys':
                return [('val', st, VConst(tuple(py.keys())))]
            if name == 'values':
                return [('val', st, VConst(tuple(py.values())))]
            if name == 'items':
                return [('val', st, VConst(tuple(py.items())))]
            if name == 'get':
                outs = []
                for o in self.dict_lookup(py, args[0], st):
                    if o[0] == 'raise' and o[2] == 'KeyError':
                        outs.append(('val', o[1], args[1] if len(args) > 1 else VNone))
                    else:
                        outs.append(o)
                return outs
        if isinstance(py, (set, frozenset)) and name == 'union':
            other = args[0].a['py']
            from .loader import PySet
            return [('val', st, VConst(PySet(set(py) | set(other))))]
        raise Unsupported('method %s of a constant %s' % (name, type(py).__name__))


def to_py(v):
    """concrete python value of a constant Val"""
    from .exprs import _const_str
    if v.ty == 'int':
        z = simplify(v.z)
        if z3.is_int_value(z):
            return z.as_long()
    if v.ty == 'str':
        r = _const_str(simplify(v.z))
        if r is not None:
            return r
    if v.ty in ('tuple', 'list'):
        return tuple(to_py(x) for x in v.a['items'])
    if v.ty == 'const':
        return v.a['py']
    if v.ty == 'bool':
        z = simplify(v.z)
        if is_true(z) or is_false(z):
            return is_true(z)
    raise Unsupported('not a constant: ' + v.ty)


def _pystr(v):
    from .exprs import _const_str
    if v.ty != 'str':
        return None
    return _const_str(simplify(v.z))
