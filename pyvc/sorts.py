"""z3 sorts and helpers shared by the engine and the contract files."""
from z3 import (SeqSort, IntSort, BoolSort, Datatype, DeclareSort, Const, Function, Concat, Unit, Empty,
                IntVal, BoolVal, Length, SubSeq, If, And, Or, Not, Implies, is_true, is_false, simplify)

Str = SeqSort(IntSort())                      # python str  = sequence of code points
_T = Datatype('Tok')
_T.declare('mk', ('text', Str), ('pos', IntSort()), ('cat', IntSort()))
Tok = _T.create()                             # utils.Token = (text, position, category); category -1 == None
TokSeq = SeqSort(Tok)
E = DeclareSort('E')                          # published expression (TexExpr reference)
ESeq = SeqSort(E)
IntSeq = SeqSort(IntSort())
StrSeq = SeqSort(Str)
NONE_CAT = -1

# TexNode wrappers as values (views never mutate them): a node is its expression and the node it was reached from
_N = Datatype('Node')
_N.declare('top', ('texpr', E))
_N.declare('sub', ('sexpr', E), ('spar', _N))
Node = _N.create()
_I = Datatype('Item')                         # element of a node-level view: a wrapped expression or a raw text leaf
_I.declare('wrapped', ('node', Node))
_I.declare('raw', ('leaf', E))
Item = _I.create()
ItemSeq = SeqSort(Item)
NodeSeq = SeqSort(Node)


def nexpr(n):
    """expression of a node term"""
    return If(Node.is_top(n), Node.texpr(n), Node.sexpr(n))


SORTS = {'int': IntSort(), 'bool': BoolSort(), 'str': Str, 'tok': Tok, 'E': E, 'node': Node, 'item': Item}


def seqsort(elem):
    return {'tok': TokSeq, 'E': ESeq, 'int': IntSeq, 'str': StrSeq, 'item': ItemSeq, 'node': NodeSeq}[elem]


def pystr(s):
    """python str constant -> Seq(Int) term"""
    if len(s) == 0:
        return Empty(Str)
    if len(s) == 1:
        return Unit(IntVal(ord(s)))
    return Concat(*[Unit(IntVal(ord(c))) for c in s])


def zmin(a, b):
    return If(a <= b, a, b)


def zmax(a, b):
    return If(a >= b, a, b)


def norm_index(k, n):
    """python index normalisation for slicing bounds: clamp(k<0 ? k+n : k, 0, n)"""
    kk = If(k < 0, k + n, k)
    return If(kk < 0, 0, If(kk > n, n, kk))


def pyslice(s, lo, hi):
    """s[lo:hi] with python semantics; lo/hi are z3 Int terms or None"""
    n = Length(s)
    a = IntVal(0) if lo is None else norm_index(lo, n)
    b = n if hi is None else norm_index(hi, n)
    return SubSeq(s, a, If(b - a < 0, 0, b - a))


def conj(xs):
    xs = [x for x in xs if not is_true(x)]
    if not xs:
        return BoolVal(True)
    return And(*xs) if len(xs) > 1 else xs[0]
