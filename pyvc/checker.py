"""Per-property check: deductive obligations + bounded stand-in + known findings -> verdict, evidence, exit code.

exit 0 held (KNOWN-FINDING lines allowed) / 1 VIOLATION / 2 UNDECIDED / 3 checker error
"""
import json
import os
import subprocess
import sys
import time
import traceback

VERIF = os.path.dirname(os.path.dirname(os.path.abspath(__file__)))
PY_REAL = '/venv/bin/python'


def load_known():
    p = os.path.join(VERIF, 'known_findings.json')
    if not os.path.exists(p):
        return []
    return json.load(open(p))['findings']


def run_bounded(script, tier, seed, extra_env=None):
    env = dict(os.environ, VERIF_SEED=str(seed), PYTHONDONTWRITEBYTECODE='1', PYTHONHASHSEED='0')
    env.setdefault('VERIF_REPO', '/repo')
    if extra_env:
        env.update(extra_env)
    t0 = time.time()
    script, *sargs = script.split()
    p = subprocess.run([PY_REAL, os.path.join(VERIF, 'bounded', script), tier] + sargs, capture_output=True, text=True,
                       env=env, cwd=os.path.join(VERIF, 'bounded'))
    out = [l for l in p.stdout.splitlines() if l.startswith('@@BOUNDED@@')]
    if p.returncode != 0 or not out:
        return {'name': script, 'error': (p.stderr or p.stdout)[-1500:], 'evaluations': 0, 'distinct_nontrivial': 0,
                'violations': [], 'samples': [], 'bound': {}, 'secs': time.time() - t0}
    d = json.loads(out[-1][len('@@BOUNDED@@'):])
    d['secs'] = round(time.time() - t0, 2)
    return d


def classify(results, pid):
    """-> dict of lists over solver results"""
    R = {'discharged': [], 'p_failed': [], 'a_failed': [], 'unknown': [], 'vacuous': [], 'guards_ok': 0}
    groups = {}
    for r in results:
        o = r.obl
        if o.kind == 'V' and o.meta.get('strict'):
            if r.verdict == 'unsat':
                R['vacuous'].append(o.name)
            else:
                R['guards_ok'] += 1
            continue
        if o.kind == 'V':
            g = o.meta.get('group', o.name)
            groups.setdefault(g, []).append(r)
            continue
        if o.kind == 'K':
            if pid in o.props:
                R.setdefault('known_obls', []).append(r)
            continue
        if r.verdict == 'unsat':
            R['discharged'].append(r)
        elif r.verdict == 'sat':
            (R['p_failed'] if (o.kind == 'P' and pid in o.props) else R['a_failed']).append(r)
        else:
            R['unknown'].append(r)
    for g, rs in groups.items():
        if any(r.verdict == 'sat' for r in rs):
            R['guards_ok'] += 1
        elif all(r.verdict == 'unsat' for r in rs):
            R['vacuous'].append(g)
        else:
            R['guards_ok'] += 1     # undecided reachability is not evidence of vacuity
    return R


def write_replay(pid, n, text):
    d = os.path.join(VERIF, 'replays')
    os.makedirs(d, exist_ok=True)
    path = os.path.join(d, '%s.%d.py' % (pid, n))
    with open(path, 'w') as f:
        f.write(text)
    os.chmod(path, 0o755)
    return os.path.relpath(path, VERIF)


def obligation_replay(pid, r, note):
    """replay file for a failed obligation without a concrete failing input"""
    o = r.obl
    body = ['#!/venv/bin/python', '# property %s: obligation refuted by the solver; no failing input was found' % pid,
            '# obligation : %s' % o.name, '# function   : %s' % o.func, '# back end   : %s (%.2fs)' % (r.backend, r.secs),
            '# %s' % note, '# counter-model of the verification condition (abstract view of the inputs):']
    for k, v in sorted((r.model or {}).items()):
        body.append('#   %s = %s' % (k, v))
    body += ['import sys', 'print(open(__file__).read())', 'sys.exit(1)']
    return '\n'.join(body) + '\n'


def main(argv, PROPS):
    import argparse
    ap = argparse.ArgumentParser()
    ap.add_argument('pid')
    ap.add_argument('--tier', default=os.environ.get('VERIF_TIER', 'quick'))
    ap.add_argument('--replay')
    ap.add_argument('--verbose', action='store_true')
    a = ap.parse_args(argv)
    if a.replay:
        p = subprocess.run([PY_REAL, a.replay if os.path.isabs(a.replay) else os.path.join(VERIF, a.replay)])
        return p.returncode
    seed = int(os.environ.get('VERIF_SEED', '0') or 0)
    try:
        return run_check(a.pid, a.tier, seed, PROPS, a.verbose)
    except Exception:
        traceback.print_exc()
        print('CHECKER-ERROR property=%s' % a.pid)
        return 3


def run_check(pid, tier, seed, PROPS, verbose=False):
    from .loader import Repo
    from .run import verify_contracts
    from contracts import load_all
    t0 = time.time()
    cfg = PROPS[pid]
    repo = Repo()
    reg = load_all()
    sel = [c.key for c in reg.all_contracts() if cfg['select'](c) and not c.trusted]
    z3_ms, cvc5_ms = (15000, 60000) if tier == "quick" else (60000, 240000)
    eng, results, t_sym, t_solve = verify_contracts(reg, set(sel), repo, z3_ms, cvc5_ms)
    R = classify(results, pid)
    extra = cfg['extra'](repo) if 'extra' in cfg else []       # solver-free obligations (frame scan)
    for name, ok, detail in extra:
        from .smt import Result, OblInfo
        class _O:       # minimal obligation record
            pass
        o = _O()
        o.name, o.kind, o.props, o.meta, o.func = name, 'P', (pid,), {'detail': detail}, 'frame-scan'
        r = Result(o, 'unsat' if ok else 'sat', 'frame-scan', 0.0, {'site': detail} if not ok else None, 1)
        results.append(r)
        (R['discharged'] if ok else R['p_failed']).append(r)
    known = [k for k in load_known() if pid in k.get('properties', []) and k.get('status', 'open') == 'open']
    violations = []      # (description, replay text, cls)
    known_hits = {}
    undecided = []

    # ---- bounded stand-in (also the search for concrete failing inputs)
    bounded = []
    for script in cfg.get('bounded', []):
        b = run_bounded(script + (' ' + pid if script in ('parse.py', 'tree.py', 'constructs.py', 'edits.py') else ''), tier, seed)
        bounded.append(b)
        if b.get('error'):
            undecided.append('bounded sweep %s failed to run: %s' % (script, b['error'][-300:]))
        for v in b['violations']:
            k = next((k for k in known if k.get('class') == v['class']), None)
            if k is not None:
                known_hits.setdefault(k['id'], (k, v))
            else:
                violations.append((v['desc'], v['replay'], v['class']))

    # ---- a run that generated nothing proves nothing
    if not sel:
        undecided.append('no contract is selected for this property (sidecar and props.py out of step)')
    n_real = len([r for r in results if r.obl.kind not in ('V', 'K')])
    if sel and n_real == 0 and not eng.unsupported:
        undecided.append('the selected contracts generated no obligation')
    for k_ in sel:
        if k_ not in eng.unsupported and not any(getattr(r.obl, 'func', None) == k_ for r in results):
            undecided.append('contract %s generated no obligation' % k_)

    # ---- deductive verdicts
    out_of_reach = dict(eng.unsupported)
    ded_known = []
    for r in R['p_failed'] + R['a_failed']:
        k = next((k for k in known if r.obl.name in k.get('obligations', [])), None)
        if k is not None:
            ded_known.append((k, r))
            known_hits.setdefault(k['id'], (k, None))
    for r in R.get('known_obls', []):          # unrestricted form of a clause with an open finding
        k = next((k for k in known if k['id'] == r.obl.meta.get('finding')), None)
        if r.verdict == 'sat' and k is not None:
            known_hits.setdefault(k['id'], (k, None))
        elif r.verdict == 'sat' and k is None:
            R['p_failed'].append(r)     # the finding is not listed as open for this property: report it
    p_open = [r for r in R['p_failed'] if not any(r is x[1] for x in ded_known)]
    a_open = [r for r in R['a_failed'] if not any(r is x[1] for x in ded_known)]
    have_input = bool(violations)
    for r in p_open:
        if not have_input:
            violations.append(('obligation %s refuted (%s)' % (r.obl.name, r.backend),
                               obligation_replay(pid, r, 'P-clause of %s' % pid), 'no-failing-input-found'))
    # an auxiliary obligation (invariant, callee precondition, frame) of the property's closure that z3 refutes with a
    # counter-model was discharged on the unchanged tree and now fails: reported as a violation of the property
    # (DESIGN 3.8 as amended); without a model it stays undecided
    for r in a_open:
        if r.model is not None and not have_input:
            violations.append(('auxiliary obligation %s refuted (%s) with a counter-model' % (r.obl.name, r.backend),
                               obligation_replay(pid, r, 'auxiliary clause in the closure of %s' % pid),
                               'no-failing-input-found'))
        elif r.model is None:
            undecided.append('auxiliary obligation refuted without a model: %s' % r.obl.name)
    for r in R['unknown']:
        undecided.append('obligation undecided (%s): %s' % (r.backend, r.obl.name))
    for k, why in out_of_reach.items():
        undecided.append('function out of reach of the executor: %s (%s)' % (k, why))
    for g in R['vacuous']:
        undecided.append('vacuity guard failed: %s' % g)

    # ---- report
    lines = []
    for kid, (k, v) in sorted(known_hits.items()):
        lines.append('KNOWN-FINDING: property=%s %s: %s' % (pid, kid, k['what']))
    n = 0
    seen_cls = {}
    refuted_note = ''.join('# refuted obligation: %s [%s] model=%s\n' % (
        r.obl.name, r.backend, json.dumps(r.model, default=str)[:400]) for r in (p_open + a_open)[:12])
    for r in (p_open + a_open)[:12]:
        print('# refuted obligation (%s-clause): %s' % (r.obl.kind, r.obl.name))
    for desc, replay, cls in violations:
        seen_cls[cls] = seen_cls.get(cls, 0) + 1
        if seen_cls[cls] > 1 or n >= 6:
            continue
        if refuted_note and replay.startswith('#!'):
            first, rest = replay.split('\n', 1)
            replay = first + '\n' + refuted_note + rest
        path = write_replay(pid, n, replay)
        n += 1
        tail = ' no-failing-input-found' if cls == 'no-failing-input-found' else ''
        print('# %s' % desc)
        lines.append('VIOLATION property=%s replay=%s%s' % (pid, path, tail))
    for u in undecided[:40]:
        print('# UNDECIDED: %s' % u)
    for ln in lines:
        print(ln)

    n_obl = len([r for r in results if r.obl.kind not in ('V', 'K')])
    n_dis = len(R['discharged'])
    level = cfg['level'] if (not undecided and n_obl == n_dis) else 'other'
    if level == 'proof' and any(c.trusted for c in reg.all_contracts() if cfg['select'](c)):
        level = 'other'        # an assumed contract inside the closure: not a proof
    if known_hits and level == 'proof':
        level = 'other'
    ev = evidence(pid, tier, seed, level, cfg, eng, results, R, bounded, known_hits, undecided, violations, sel,
                  t_sym, t_solve, time.time() - t0, repo)
    # evidence is only written for the real tree; runs against scratch copies (mutants) go to a scratch directory
    evdir = os.path.join(VERIF, 'evidence') if os.environ.get('VERIF_REPO', '/repo') == '/repo' \
        else os.path.join(VERIF, 'evidence', '_scratch')
    os.makedirs(evdir, exist_ok=True)
    json.dump(ev, open(os.path.join(evdir, pid + '.json'), 'w'), indent=1)
    print('# %s: %d obligations, %d discharged, %d refuted, %d undecided, %d functions out of reach; bounded: %s; %.1fs'
          % (pid, n_obl, n_dis, len(R['p_failed']) + len(R['a_failed']), len(R['unknown']), len(out_of_reach),
             ', '.join('%s=%d cases' % (b['name'], b['evaluations']) for b in bounded) or 'none', time.time() - t0))
    if violations:
        return 1
    if undecided:
        print('UNDECIDED property=%s' % pid)
        return 2
    return 0


def evidence(pid, tier, seed, level, cfg, eng, results, R, bounded, known_hits, undecided, violations, sel, t_sym,
             t_solve, wall, repo):
    by_backend = {}
    secs = 0.0
    queries = 0
    for r in results:
        by_backend[r.backend] = by_backend.get(r.backend, 0) + 1
        secs += r.secs
        queries += r.queries
    funcs = {}
    for k in sel:
        q = k.split('[')[0]
        if q in repo.funcs:
            funcs[k] = {'sha': repo.funcs[q].sha, 'line': repo.funcs[q].lineno,
                        'status': 'out-of-reach: ' + eng.unsupported[k] if k in eng.unsupported else 'verified-against-contract'}
    n_obl = len([r for r in results if r.obl.kind not in ('V', 'K')])
    from contracts import load_all as _la
    assumed = sorted({'ASSUMED contract (body not verified): %s' % c.key for c in _la().all_contracts() if c.trusted})
    samples = []
    for r in results:
        if r.obl.kind == 'P' and pid in r.obl.props and len(samples) < 12:
            samples.append({'obligation': r.obl.name, 'verdict': r.verdict, 'backend': r.backend,
                            'secs': round(r.secs, 3)})
    cov = {
        'obligations': n_obl, 'discharged': len(R['discharged']),
        'p_clauses_of_this_property': len([r for r in results if r.obl.kind == 'P' and pid in r.obl.props]),
        'vacuity_guards_passed': R['guards_ok'], 'vacuity_guards_failed': R['vacuous'],
        'checker_cmd': 'python3-vt check %s --tier %s' % (pid, tier),
        'trusted_base': cfg.get('trusted_base', []) + COMMON_TRUSTED + assumed,
        'backends': by_backend, 'solver_secs': round(secs, 2), 'solver_queries': queries,
        'symbolic_execution_secs': round(t_sym, 2), 'functions_under_contract': funcs,
        'refuted': [r.obl.name for r in R['p_failed'] + R['a_failed']],
        'undecided': undecided[:60],
        'known_findings_reported': sorted(known_hits),
        'bounded': [{k: b.get(k) for k in ('name', 'bound', 'evaluations', 'distinct_nontrivial', 'secs', 'error')}
                    for b in bounded],
        'samples': samples + [{'bounded_case': s} for b in bounded for s in b.get('samples', [])[:3]],
        'evaluations': sum(b['evaluations'] for b in bounded) + n_obl,
        'distinct_nontrivial': sum(b['distinct_nontrivial'] for b in bounded) + n_obl,
        'rule': 'deductive part: one obligation per contract clause and path of the real function bodies; bounded part: '
                'enumerations with the stated bounds on the real functions (never counted as discharged)',
        'explanation': cfg.get('explanation', ''),
        'linking_lemmas': cfg.get('lemmas', []),
        'lemmas_mechanised': lemma_status(tier),
    }
    return {'property_id': pid, 'tier': tier if tier in ('quick', 'thorough') else 'quick', 'seed': seed,
            'level': level, 'coverage': cov, 'assumptions': cfg.get('assumptions', []) + COMMON_ASSUMPTIONS,
            'wall_s': round(wall, 2), 'violations': len(violations)}


def lemma_status(tier):
    """the Lean mechanisation of the linking lemmas (lemmas/Lemmas.lean): re-checked with `lean` in the thorough tier (or
    when VERIF_LEAN=1); the quick tier records the file hash and the theorem names only"""
    import importlib.util
    spec = importlib.util.spec_from_file_location('check_lemmas', os.path.join(VERIF, 'tools', 'check_lemmas.py'))
    m = importlib.util.module_from_spec(spec)
    spec.loader.exec_module(m)
    if tier == 'thorough' or os.environ.get('VERIF_LEAN') == '1':
        r = m.run()
        r['checked_in_this_run'] = True
        return r
    import hashlib
    import re
    text = open(m.SRC).read()
    return {'file': 'lemmas/Lemmas.lean', 'sha256': hashlib.sha256(text.encode()).hexdigest()[:16],
            'theorems': re.findall(r'^\s*theorem\s+(\w+)', text, re.M), 'checked_in_this_run': False,
            'note': 'run `python3-vt tools/check_lemmas.py` or the thorough tier to re-check with Lean'}


COMMON_TRUSTED = [
    'pyvc VC generator (/verif/pyvc): Python-subset semantics of DESIGN 3.2-3.4',
    'z3 5.1.0 and cvc5 1.0.3',
    'engine-supplied definitional instances of the fold specification functions (DESIGN 3.5)',
]
COMMON_ASSUMPTIONS = [
    'int is mathematical, str is a sequence of code points, list/str methods follow the language reference',
    'interpreter recursion limit and memory are not modelled',
    'error-message construction in raise/assert statements is not executed',
]
