"""Discharge of obligations: z3 (in-process, forked workers) then /usr/bin/cvc5 on z3's SMT-LIB export.

verdicts: 'unsat' (discharged), 'sat' (refuted, with a model when z3 produced it), 'unknown'.
"""
import multiprocessing as mp
import os
import re
import subprocess
import tempfile
import time

import z3
from z3 import Solver, Not, sat, unsat, unknown, is_and, is_true, is_false, simplify, And, BoolVal

CVC5 = '/usr/bin/cvc5'


class Obl:
    """An obligation: under `hyps`, `goal` must hold."""
    __slots__ = ('name', 'hyps', 'goal', 'kind', 'props', 'watch', 'meta', 'func')

    def __init__(self, name, hyps, goal, kind='A', props=(), watch=None, meta=None, func=None):
        self.name, self.hyps, self.goal = name, list(hyps), goal
        self.kind = kind          # 'P' property clause / 'A' auxiliary
        self.props = tuple(props)
        self.watch = watch or {}  # label -> z3 term to evaluate in a counter-model
        self.meta = meta or {}
        self.func = func


def split_goal(g, limit=24):
    """one query per conjunct (mixed goals go `unknown`, conjuncts alone are decided); conjunctions under an
    implication are split too: p => (a and b) becomes p => a, p => b"""
    if is_and(g):
        out = []
        for c in g.children():
            out += split_goal(c, limit)
        return out if len(out) <= limit else [g]
    if z3.is_implies(g):
        p, q = g.children()
        parts = split_goal(q, limit)
        if len(parts) > 1:
            return [z3.Implies(p, c) for c in parts]
    return [g]


def pyval(v):
    """z3 model value -> python (int / bool / list / tuple for Tok)"""
    try:
        if z3.is_int_value(v):
            return v.as_long()
        if is_true(v):
            return True
        if is_false(v):
            return False
        if z3.is_seq(v):
            d = v.decl().kind()
            if d == z3.Z3_OP_SEQ_EMPTY:
                return []
            if d == z3.Z3_OP_SEQ_UNIT:
                return [pyval(v.arg(0))]
            if d == z3.Z3_OP_SEQ_CONCAT:
                out = []
                for c in v.children():
                    x = pyval(c)
                    if not isinstance(x, list):
                        return str(v)
                    out += x
                return out
            if z3.is_string_value(v):
                return [ord(c) for c in v.as_string()]
            return str(v)
        if v.sort().kind() == z3.Z3_DATATYPE_SORT and v.num_args() > 0:
            return tuple(pyval(c) for c in v.children())
    except Exception:
        pass
    return str(v)


_OBLS = []
_CFG = {}


def _run_cvc5(smt2, tlimit_ms):
    text = '(set-logic ALL)\n' + smt2
    with tempfile.NamedTemporaryFile('w', suffix='.smt2', delete=False, dir=os.environ.get('TMPDIR', '/tmp')) as f:
        f.write(text)
        path = f.name
    try:
        p = subprocess.run([CVC5, '--strings-exp', '--tlimit=%d' % tlimit_ms, '--lang=smt2', path],
                           capture_output=True, text=True, timeout=tlimit_ms / 1000 + 10)
        out = p.stdout.strip().splitlines()
        if out and out[0] not in ('sat', 'unsat', 'unknown') and os.environ.get('PYVC_DEBUG'):
            import sys
            print('cvc5 says: %s %s' % (out[:2], p.stderr[:300]), file=sys.stderr)
        return out[0] if out else 'unknown'
    except Exception as e:
        import sys
        print('cvc5 wrapper error: %r' % e, file=sys.stderr)
        return 'unknown'
    finally:
        os.unlink(path)


def check_guard(hyps, ms):
    t0 = time.time()
    s = Solver()
    s.set('timeout', ms)
    for h in hyps:
        s.add(h)
    r = s.check()
    return ('sat' if r == sat else 'unsat' if r == unsat else 'unknown', 'z3', time.time() - t0, None)


_SYMS = {}
_SIZE = {}
BIG = 400       # distinct sub-terms: hypotheses above this are literal tables (e.g. the 100+ punctuation commands)


def _ufuns(t):
    """names of the uninterpreted functions (arity > 0) occurring in a term; cached per term id"""
    k = t.get_id()
    r = _SYMS.get(k)
    if r is not None:
        return r
    out, seen, stack = set(), set(), [t]
    while stack:
        x = stack.pop()
        i = x.get_id()
        if i in seen:
            continue
        seen.add(i)
        if z3.is_quantifier(x):
            stack.append(x.body())
            continue
        if z3.is_app(x):
            if x.num_args() > 0 and x.decl().kind() == z3.Z3_OP_UNINTERPRETED:
                out.add(x.decl().name())
            stack.extend(x.children())
    _SYMS[k] = frozenset(out)
    _SIZE[k] = len(seen)
    return _SYMS[k]


def relevant_hyps(hyps, goal):
    """the hypotheses that mention no uninterpreted function other than those of the goal (a subset of the
    hypotheses: a proof from it is a proof from all of them)"""
    S = _ufuns(goal)
    return [h for h in hyps if _ufuns(h) <= S]


def check_one(hyps, goal, z3_ms, cvc5_ms, watch=None):
    t0 = time.time()
    # Attempts on subsets of the hypotheses (sound: fewer hypotheses; only `unsat` is used from them).  Hypotheses that
    # define large literal tables are left out first - they make z3's sequence solver erratic - together with those
    # outside the goal's vocabulary; then only the tables are left out; then only the foreign vocabulary.
    light = [h for h in hyps if (_ufuns(h) is not None) and _SIZE[h.get_id()] <= BIG]
    sub = relevant_hyps(hyps, goal)
    both = [h for h in sub if _SIZE[h.get_id()] <= BIG]
    tried = set()
    for subset, budget in ((both, max(3000, min(z3_ms // 3, 12000))), (light, max(5000, min(z3_ms // 2, 20000))),
                           (sub, max(3000, min(z3_ms // 3, 12000)))):
        key = len(subset)
        if len(subset) == len(hyps) or key in tried:
            continue
        tried.add(key)
        s0 = Solver()
        s0.set('timeout', budget)
        for h in subset:
            s0.add(h)
        s0.add(Not(goal))
        if s0.check() == unsat:
            return 'unsat', 'z3', time.time() - t0, None
    s = Solver()
    s.set('timeout', z3_ms)
    for h in hyps:
        s.add(h)
    s.add(Not(goal))
    r = s.check()
    if r == unsat:
        return 'unsat', 'z3', time.time() - t0, None
    if r == sat:
        m = s.model()
        model = {}
        for k, t in (watch or {}).items():
            try:
                model[k] = pyval(m.eval(t, model_completion=True))
            except Exception as e:  # pragma: no cover
                model[k] = 'eval-error: %s' % e
        return 'sat', 'z3', time.time() - t0, model
    if cvc5_ms > 0 and os.path.exists(CVC5):
        s2 = Solver()           # a solver that has not been checked: z3 rewrites seq.nth after check()
        for h in hyps:
            s2.add(h)
        s2.add(Not(goal))
        r2 = _run_cvc5(s2.to_smt2(), cvc5_ms)
        if r2 == 'unsat':
            return 'unsat', 'cvc5', time.time() - t0, None
        if r2 == 'sat':
            # a refutation is only accepted from z3 (it comes with a model that can be replayed); cvc5's `sat`
            # on a query z3 could not decide stays undecided
            return 'unknown', 'z3+cvc5(sat)', time.time() - t0, None
    # last resort: z3 again with other random seeds (its sequence solver is sensitive to them)
    for seed in (7, 23):
        s3 = Solver()
        s3.set('timeout', z3_ms)
        s3.set('random_seed', seed)
        for h in hyps:
            s3.add(h)
        s3.add(Not(goal))
        r3 = s3.check()
        if r3 == unsat:
            return 'unsat', 'z3(seed %d)' % seed, time.time() - t0, None
        if r3 == sat:
            break
    return 'unknown', 'z3+cvc5', time.time() - t0, None


def _work(idx):
    o = _OBLS[idx]
    parts = split_goal(o.goal)
    verdict, backends, total, model = 'unsat', set(), 0.0, None
    nq = 0
    for g in parts:
        if o.kind == 'V':      # reachability / consistency guards: a model is searched with a short budget only
            v, be, dt, m = check_guard(o.hyps, 3000)
        else:
            v, be, dt, m = check_one(o.hyps, g, _CFG['z3_ms'], _CFG['cvc5_ms'], o.watch)
        nq += 1
        total += dt
        backends.add(be)
        if v == 'sat':
            verdict, model = 'sat', m
            break
        if v == 'unknown':
            verdict = 'unknown'
    return idx, verdict, '+'.join(sorted(backends)), total, model, nq


class Result:
    __slots__ = ('obl', 'verdict', 'backend', 'secs', 'model', 'queries')

    def __init__(self, obl, verdict, backend, secs, model, queries):
        self.obl, self.verdict, self.backend, self.secs, self.model, self.queries = obl, verdict, backend, secs, model, queries


def discharge(obls, z3_ms=5000, cvc5_ms=20000, procs=None):
    """Discharge all obligations in parallel (fork; the workers read the parent's z3 terms)."""
    global _OBLS, _CFG
    _OBLS = obls
    _CFG = {'z3_ms': z3_ms, 'cvc5_ms': cvc5_ms}
    procs = procs or min(16, os.cpu_count() or 4)
    res = [None] * len(obls)
    if not obls:
        return []
    if procs == 1 or len(obls) < 4:
        for i in range(len(obls)):
            _, v, be, dt, m, nq = _work(i)
            res[i] = Result(obls[i], v, be, dt, m, nq)
        return res
    ctx = mp.get_context('fork')
    with ctx.Pool(procs) as pool:
        for idx, v, be, dt, m, nq in pool.imap_unordered(_work, range(len(obls)), chunksize=4):
            res[idx] = Result(obls[idx], v, be, dt, m, nq)
    # second pass for what stayed undecided: fewer workers (less contention), doubled budgets
    again = [i for i, r in enumerate(res) if r.verdict == 'unknown' and obls[i].kind != 'V']
    if again:
        _CFG['z3_ms'], _CFG['cvc5_ms'] = 2 * z3_ms, 2 * cvc5_ms
        with ctx.Pool(min(4, len(again))) as pool:
            for idx, v, be, dt, m, nq in pool.imap_unordered(_work, again, chunksize=1):
                if v != 'unknown':
                    res[idx] = Result(obls[idx], v, be + '(2nd pass)', res[idx].secs + dt, m, nq)
    return res


def quick_sat(hyps, ms=150):
    """feasibility of a path: False only when z3 proves unsat"""
    s = Solver()
    s.set('timeout', ms)
    for h in hyps:
        s.add(h)
    return s.check() != unsat


# ---------------------------------------------------------------------- grouped (incremental) discharge inside one process
class OblInfo:
    """picklable summary of an obligation (what reports and evidence need)"""
    __slots__ = ('name', 'kind', 'props', 'meta', 'func')

    def __init__(self, o):
        self.name, self.kind, self.props, self.meta, self.func = o.name, o.kind, tuple(o.props), dict(o.meta), o.func


def discharge_grouped(obls, z3_ms=5000, cvc5_ms=20000):
    """discharge inside one process, one fresh solver per query (z3's incremental mode is an order of magnitude
    slower on these sequence-heavy queries, measured)"""
    out = []
    for o in obls:
        verdict, backends, total, model, nq = 'unsat', set(), 0.0, None, 0
        for g in split_goal(o.goal):
            v, be, dt, m = check_one(o.hyps, g, z3_ms, cvc5_ms, o.watch if o.kind != 'V' else None)
            nq += 1
            total += dt
            backends.add(be)
            if v == 'sat':
                verdict, model = 'sat', m
                break
            if v == 'unknown':
                verdict = 'unknown'
        out.append(Result(OblInfo(o), verdict, '+'.join(sorted(backends)), total, model, nq))
    return out
