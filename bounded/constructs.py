"""Bounded stand-ins for the construct-level properties C09 (argument attachment), C10 (comments), C11 (verbatim),
C12 (math regions).  Each case is built from parts whose intended reading is known by construction (the oracle).

usage: constructs.py <tier> <property id>
"""
import itertools
import os
import random
import sys

from common import Sweep, REPLAY_HEAD, pmap

from TexSoup import TexSoup
from TexSoup.data import (TexCmd, TexText, TexNamedEnv, BraceGroup, BracketGroup, TexMathModeEnv, TexDisplayMathModeEnv,
                          TexMathEnv, TexDisplayMathEnv, TexExpr, TexNode)
from TexSoup.utils import TC

PROP = None
ATTACH = ['', ' ', '\t', '\n', ' \n ', '  \t']
DETACH = ['\n\n', '.', ' \n \n', '.x', '%c\n']
BODIES_BRACE = ['x', 'a]b', 'a[b', '{y}', '', 'p q']
BODIES_BRACKET = ['o', 'a{]}b', '', 'a}b', '}']
CONTEXTS = ['%s', '\\begin{a}%s\\end{a}', '{%s}', '$%s$', 'pre %s', '\\begin{itemize}\\item %s\\end{itemize}', '$$%s$$',
            '\\[%s\\]', '\\begin{equation}%s\\end{equation}', '$\\textbf{%s}$']


def find_cmd(node, name):
    for n in walk(node.expr):
        if isinstance(n, TexCmd) and n.name == name:
            return n
    return None


def walk(e):
    yield e
    if isinstance(e, TexText) or not isinstance(e, TexExpr):
        return
    for a in e.args:
        yield from walk(a)
    for c in e._contents:
        if isinstance(c, TexExpr):
            yield from walk(c)


# ---------------------------------------------------------------------- C09
def c09_cases(tier, rnd):
    cases = []
    nb_max, nr_max = (2, 2) if tier == 'quick' else (3, 4)
    for nb in range(nb_max + 1):
        for nr in range(nr_max + 1):
            for _ in range(60 if tier == 'quick' else 400):
                groups = [('[', rnd.choice(BODIES_BRACKET)) for _ in range(nb)] + \
                         [('{', rnd.choice(BODIES_BRACE)) for _ in range(nr)]
                seps = [rnd.choice(ATTACH) for _ in groups]
                cut = rnd.randrange(0, len(groups) + 1) if rnd.random() < 0.5 else len(groups)
                if cut < len(groups):
                    seps[cut] = rnd.choice(DETACH)
                cases.append((groups, seps, cut, rnd.choice(CONTEXTS), rnd.choice(['', '.', ' tail']), rnd.choice(C09_NAMES)))
    # a bracket group after a brace group belongs to the run only when it follows directly
    for name in C09_NAMES:
        for sep in ATTACH + DETACH[:2]:
            for ctx in CONTEXTS[:4]:
                cases.append(('mixed', name, sep, ctx))
    return cases


C09_NAMES = ['foo', 'foo', 'section*', 'textbf*', 'in*', 'label*', 'bar*']      # starred names are not keys of the signature table


def c09_text(case):
    if case[0] == 'mixed':
        _, name, sep, ctx = case
        return ctx % ('\\' + name + '{a}' + sep + '[b] t')
    groups, seps, cut, ctx, tail, name = case
    s = '\\' + name
    for (k, body), sep in zip(groups, seps):
        s += sep + (('[' + body + ']') if k == '[' else ('{' + body + '}'))
    return ctx % (s + tail)


def c09_check(case):
    s = c09_text(case)
    out = []
    if case[0] == 'mixed':
        _, name, sep, ctx = case
        groups, cut = [('{', 'a')] + ([('[', 'b')] if sep == '' else []), None
        if '$' in ctx and sep != '':
            return out
    else:
        groups, seps, cut, ctx, tail, name = case
        if '$' in ctx and any(k == '[' for k, _ in groups[cut:]):
            return out
    try:
        soup = TexSoup(s)
    except Exception as e:
        return [('rejected', 'TexSoup(%r) raised %s' % (s, type(e).__name__))]
    cmd = find_cmd(soup, name)
    if cmd is None:
        return [('command-missing', 'no \\%s in the tree of %r' % (name, s))]
    exp = groups[:cut]
    got = [('[' if isinstance(a, BracketGroup) else '{', ''.join(str(c) for c in a._contents)) for a in cmd.args]
    # a bracket group after a brace group attaches only when it follows directly (second round of read_args)
    if got != exp:
        out.append(('argument-run', 'arguments of \\%s in %r are %r, the separators allow exactly %r' % (name, s, got, exp)))
    return out


# ---------------------------------------------------------------------- C10
PAYLOAD = ['{', '}', '[', ']', '$', '\\', '\\begin{a}', '\\end{a}', '\\item', '%', ' x', '$$', '\\[', '\\end{verbatim}',
           '\\end{lstlisting}', '\\begin{verbatim}', ']\\section{q}', '}\\end{Verbatim}{']
C10_CTX = ['a %s\nb', '\\begin{a}x%s\n\\end{a}', '\\x{a%s\nb}', '\\x[a%s\nb]', '{a%s\nb}', '$a%s\nb$', '\\[a%s\nb\\]',
           '\\begin{itemize}\\item a%s\n\\item b\\end{itemize}', 'end %s', 'a\\\\[1pt %s\nb', '{a\\\\*[2pt %s\nb]}',
           '\\begin{foo}x%s\n\\end{foo}']


def shape(e):
    if isinstance(e, TexText):
        t = e._text
        if getattr(t, 'category', None) == TC.Comment:
            return ('comment',)
        return ('text', str(t))
    if not isinstance(e, TexExpr):
        return ('text', str(e))
    return (type(e).__name__, e.name, tuple(shape(a) for a in e.args), tuple(shape(c) for c in e._contents))


def c10_check(case):
    ctx, payload, nbs = case
    marker = '\\' * nbs + '%' + payload
    s = ctx % marker
    ref = ctx % ('\\' * nbs + '%')
    out = []
    try:
        a, b = TexSoup(s), TexSoup(ref)
    except Exception as e:
        if nbs % 2 == 1:
            return out          # the payload is not inside a comment here
        try:
            TexSoup(ref)
        except Exception:
            return out          # the context itself does not parse with this number of backslashes
        return [('payload-changes-parse', 'TexSoup(%r) raised %s but the same text with an empty comment parses'
                 % (s, type(e).__name__))]
    if nbs % 2 == 0:
        if shape(a.expr) != shape(b.expr):
            out.append(('payload-changes-tree', 'the tree of %r differs from the tree with an empty comment payload' % s))
        comments = [e for e in walk(a.expr) if isinstance(e, TexText) and getattr(e._text, 'category', None) == TC.Comment]
        if not any(str(c._text) == '%' + payload for c in comments):
            out.append(('comment-not-one-leaf', 'the comment %r is not a single text leaf in %r' % ('%' + payload, s)))
        inside = TexSoup(payload + '\n') if False else None
        for name in ('a', 'item'):
            if a.count(name) != b.count(name):
                out.append(('comment-searchable', 'search for %r sees the comment payload in %r' % (name, s)))
    else:
        comments = [e for e in walk(a.expr) if isinstance(e, TexText) and getattr(e._text, 'category', None) == TC.Comment
                    and str(e._text).startswith('%' + payload)]
        if comments and payload and not payload.startswith('%'):
            out.append(('escaped-percent-is-comment', 'an odd number of backslashes before %% still starts a comment in %r' % s))
    return out


# ---------------------------------------------------------------------- C11
VNAMES = ['verbatim', 'lstlisting', 'Verbatim', 'listing', 'verbatimtab', 'myenv', 'code*', 'align', 'equation*', 'array']
USER_NAMES = ('myenv', 'code*', 'align', 'equation*', 'array')      # passed via skip_envs (some are also math environment names)
VBODY = ['x', '$ {', '\\x{', '% }\n y', 'a\\begin{b}', ']} $$', '\\end{other}', '\\begin{verbatim} x', '\\[ {', 'a\n\nb', '\n }{ \n']
V_CTX = ['%s', 'pre\n%s post', '\\begin{a}%s\\end{a}', '\\begin{a}\\begin{b}%s\\end{b}x\\end{a}', '\\section{t}%s',
         '\\begin{itemize}\\item %s\\end{itemize}']


def c11_check(case):
    name, body, ctx = case
    inner = '\\begin{%s}%s\\end{%s}' % (name, body, name)
    s = ctx % inner
    skip = (name,) if name in USER_NAMES else ()
    out = []
    if body.lstrip()[:1] in '{[' or body.endswith('\\') or '%' in body.split('\n')[-1]:
        return out
    d19 = 'D19' if '\\item' in ctx else None      # known finding: read_item drops the skip_envs option
    try:
        soup = TexSoup(s, skip_envs=skip)
    except Exception as e:
        return [(d19 or 'verbatim-body-parsed', 'TexSoup(%r, skip_envs=%r) raised %s' % (s, skip, type(e).__name__))]
    envs = [e for e in walk(soup.expr) if isinstance(e, TexNamedEnv) and e.name == name]
    if len(envs) != 1:
        return [('verbatim-env', 'expected one %s environment in %r, found %d' % (name, s, len(envs)))]
    e = envs[0]
    if d19 and (len(e._contents) != 1 or str(e._contents[0]) != body):
        return [('D19', 'body of %s inside an \\item in %r is parsed: %r' % (name, s, [str(c) for c in e._contents]))]
    if len(e._contents) != 1 or str(e._contents[0]) != body or isinstance(e._contents[0], TexExpr) and not isinstance(e._contents[0], TexText):
        out.append(('verbatim-body', 'body of %s in %r is %r' % (name, s, [str(c) for c in e._contents])))
    if str(soup) != s:
        out.append(('verbatim-round-trip', 'str(TexSoup(%r)) == %r' % (s, str(soup))))
    for q in ('x', 'b', 'other'):
        hits = [h for h in soup.find_all(q) if body and str(h) in body and str(h) not in s.replace(inner, '')]
        if hits:
            out.append(('verbatim-searchable', 'find_all(%r) returns %r from inside the verbatim body of %r' % (q, hits, s)))
    return out


# ---------------------------------------------------------------------- C12
MATHD = [('$', '$', TexMathModeEnv), ('$$', '$$', TexDisplayMathModeEnv), ('\\(', '\\)', TexMathEnv),
         ('\\[', '\\]', TexDisplayMathEnv)]
MBODY = ['', ' ', 'x', 'a+b', '\\alpha', '\\frac{a}{b}', '\\$', '(a', 'a)', '[a', 'a]', ')(', '\\left[x\\right)', '\\big(y', 'a \\in [0,1)',
         '\\cup [', 'x\\cap(', '{a}', '\\infty]', '\\notin (', 'a_{[}', 'A_{x\\in[0,1)}', 'y^{\\cup[a}', 'z_{\\cap[}',
         'u\\notin[a', '\\infty[']
M_CTX = ['%s', 'pre %s post', '\\begin{a}%s\\end{a}', '{%s}', '\\x{%s}', '\\begin{itemize}\\item %s\\end{itemize}',
         '\\newcommand{\\R}{%s}', '\\renewcommand{\\R}[1]{a %s}', '\\begin{verbatim}$ ls\\end{verbatim} %s',
         '\\begin{lstlisting}my $x\\end{lstlisting}\n%s']
MENVS = ['equation', 'align*', 'gather', 'math', 'displaymath', 'eqnarray*', 'split']


def c12_check(case):
    kind, body, ctx, second = case
    out = []
    if kind[0] == 'env':
        name = kind[1]
        region = '\\begin{%s}%s\\end{%s}' % (name, body, name)
    else:
        o, c, cls = kind[1]
        region = o + body + c
    if second and kind[0] == 'delim' and kind[1][0] == second[:len(kind[1][0])] and not second.startswith(' '):
        return out          # adjacent regions of the SAME kind are ambiguous ($a$$b$), the property speaks of different kinds
    if second in ('$z$', '$$v$$', '$$$$') and kind[0] == 'delim' and kind[1][0] in ('$', '$$') and \
            (kind[1][0] + second).count('$') % 2 == 1 and kind[1][0] == '$':
        return out
    s = ctx % (region + (second or ''))
    if kind[0] == 'delim' and kind[1][0] in ('$', '$$') and (body.endswith('$') or '$$' in s.replace(region, '', 1) and False):
        return out
    if kind[0] == 'env' and body[:1] in '[{':
        return out
    if kind[0] == 'delim' and kind[1][0] == '$' and body == '':
        return out          # `$$` is the display switch, not an empty inline region
    if kind[0] == 'env' and 'command{' in ctx:
        return out          # inside a definition \\begin/\\end open nothing (C02): only the delimiter kinds apply there
    try:
        soup = TexSoup(s)
    except Exception as e:
        return [('math-rejected', 'TexSoup(%r) raised %s: %s' % (s, type(e).__name__, str(e)[:50]))]
    if str(soup) != s:
        out.append(('math-round-trip', 'str(TexSoup(%r)) == %r' % (s, str(soup))))
    if kind[0] == 'delim':
        o, c, cls = kind[1]
        nodes = [e for e in walk(soup.expr) if type(e) is cls]
        if not nodes or ''.join(str(x) for x in nodes[0]._contents) != body:
            out.append(('math-body', 'math region %r of %r is parsed as %r' % (region, s, [str(n) for n in nodes])))
    else:
        nodes = [e for e in walk(soup.expr) if isinstance(e, TexNamedEnv) and e.name == kind[1]]
        if not nodes or ''.join(str(x) for x in nodes[0]._contents) != body:
            out.append(('math-body', 'math environment %r of %r is parsed as %r' % (region, s, [str(n) for n in nodes])))
    for cmdname in ('alpha', 'frac'):
        if ('\\' + cmdname) in body and soup.count(cmdname) < 1:
            out.append(('math-command-not-searchable', '\\%s inside the math region of %r is not found' % (cmdname, s)))
    return out


CHECKS = {'C09': c09_check, 'C10': c10_check, 'C11': c11_check, 'C12': c12_check}


def check(case):
    return CHECKS[PROP](case)


def cases_for(prop, tier, rnd):
    if prop == 'C09':
        return c09_cases(tier, rnd)
    if prop == 'C10':
        L = 2 if tier == 'quick' else 3
        pl = [''.join(p) for n in range(0, L + 1) for p in itertools.product(PAYLOAD, repeat=n)]
        base = [(ctx, p, nb) for ctx in C10_CTX for p in pl for nb in range(0, 5 if tier != 'quick' else 4)]
        # other line ends: a lone CR and CRLF end a comment as well
        alt = [(ctx.replace('\n', le), p, nb) for ctx in C10_CTX for le in ('\r', '\r\n') for p in pl[:40] for nb in (0, 1, 2)]
        return base + alt
    if prop == 'C11':
        return [(n, b, c) for n in VNAMES for b in VBODY for c in V_CTX]
    if prop == 'C12':
        kinds = [('delim', d) for d in MATHD] + [('env', n) for n in MENVS]
        seconds = [None, ' $z$', '\\[w\\]', '$z$', '$$v$$'] if tier == 'quick' else \
            [None, ' $z$', '\\[w\\]', '$z$', '$$v$$', '\\(u\\)', '$$$$']
        return [(k, b, c, s2) for k in kinds for b in MBODY for c in M_CTX for s2 in seconds]
    raise SystemExit('unknown property')


def replay_src(case, prop):
    return REPLAY_HEAD + '''sys.path.insert(0, %r)
import constructs
from TexSoup.data import *
constructs.PROP = %r
r = constructs.check(%s)
print(r or 'no violation'); sys.exit(1 if r else 0)
''' % (os.path.dirname(os.path.abspath(__file__)), prop, case_repr(case))


def case_repr(case):
    return repr(case).replace("<class 'TexSoup.data.", '').replace("'>", '')


def main(tier, prop):
    global PROP
    PROP = prop
    rnd = random.Random(int(os.environ.get('VERIF_SEED', '0') or 0))
    cs = cases_for(prop, tier, rnd)
    sw = Sweep('%s construct sweep' % prop, {'cases': len(cs), 'tier': tier})
    for c, r in zip(cs, pmap(check, cs, chunk=500)):
        sw.case(case_repr(c)[:200], True)
        for cls, desc in r:
            sw.violation(cls, desc, replay_src(c, prop), case_repr(c)[:200])
    sw.emit()


if __name__ == '__main__':
    main(sys.argv[1] if len(sys.argv) > 1 else 'quick', sys.argv[2] if len(sys.argv) > 2 else 'C09')
