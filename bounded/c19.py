"""C19 bounded stand-in: categorize/tokenize partition the input (exhaustive short strings, all code points singly)."""
import itertools
import random
import sys
import os

from common import Sweep, REPLAY_HEAD, pmap

from TexSoup.category import categorize
from TexSoup.tokens import tokenize
from TexSoup.utils import CC, TC

SIGMA = ['\\', '{', '}', '[', ']', '$', '%', '\n', ' ', 'a', '1', '(', '\x00', '*', '|', '&', '\x7f', 'b']


def check(s):
    """-> None or (class, description)"""
    try:
        chars = list(categorize(s))
    except Exception as e:
        return 'categorize-raises', 'categorize(%r) raised %s' % (s, type(e).__name__)
    if len(chars) != len(s):
        return 'categorize-count', 'categorize(%r) yields %d tokens for %d characters' % (s, len(chars), len(s))
    for k, c in enumerate(chars):
        if str(c) != s[k] or c.position != k or c.category not in CC:
            return 'categorize-item', 'categorize(%r)[%d] = (%r, %r, %r)' % (s, k, str(c), c.position, c.category)
    try:
        toks = list(tokenize(categorize(s)))
    except Exception as e:
        return 'tokenize-raises:' + type(e).__name__, 'tokenize(%r) raised %s: %s' % (s, type(e).__name__, e)
    end = 0
    for t in toks:
        txt = str(t)
        if len(txt) == 0:
            return 'empty-token', 'tokenize(%r) yields an empty token at %r' % (s, t.position)
        p = t.position
        if not isinstance(p, int) or p < end or s[p:p + len(txt)] != txt:
            return 'token-offset', 'tokenize(%r): token %r records offset %r' % (s, txt, p)
        if any(ch not in '\x00\x7f' for ch in s[end:p]):
            return 'characters-lost', 'tokenize(%r): characters %r before offset %d are in no token' % (s, s[end:p], p)
        if t.category not in TC:
            return 'token-category', 'tokenize(%r): token %r has category %r' % (s, txt, t.category)
        end = p + len(txt)
    if any(ch not in '\x00\x7f' for ch in s[end:]):
        return 'characters-lost', 'tokenize(%r): trailing characters %r are in no token' % (s, s[end:])
    return None


def replay_src(s):
    return REPLAY_HEAD + '''sys.path.insert(0, %r)
import c19
r = c19.check(%r)
print(r or 'no violation'); sys.exit(1 if r else 0)
''' % (os.path.dirname(os.path.abspath(__file__)), s)


def main(tier):
    L = 4 if tier == 'quick' else 5
    sw = Sweep('C19 partition sweep', {'alphabet': SIGMA, 'max_len': L, 'code_points': 'all 1,112,064 scalar values singly',
                                       'sizing_atoms_max': 3 if tier == 'quick' else 4, 'random_long': 300})
    rnd = random.Random(int(os.environ.get('VERIF_SEED', '0') or 0))
    cases = [''.join(t) for n in range(0, L + 1) for t in itertools.product(SIGMA, repeat=n)]
    cases += [chr(cp) for cp in range(0x110000) if not 0xD800 <= cp <= 0xDFFF]       # every code point, singly
    for cp in (0xFEFF, 0x200B, 0x2028, 0x00A0, 0x0085, 0x3000, 0xFFFD, 0x10FFFF, 0x7F, 0x00):   # and at token boundaries
        cases += [chr(cp) + '\\x{a}', '{' + chr(cp) + '}', 'a' + chr(cp), '$' + chr(cp) + '$']
    WS = ['\r', '\n', '\t', ' ', 'a', '\\', '{', '%']       # line ends and blanks of every kind next to each other
    cases += [''.join(t) for n in range(2, 5 if tier == 'quick' else 7) for t in itertools.product(WS, repeat=n)]
    S2 = ['\\left', '\\big', '\\right', '\\Bigg', ' ', '\t', '(', '[', '|', '.', 'x', '\\', '{', '\n', '\\langle']
    cases += [''.join(t) for n in range(2, 4 if tier == 'quick' else 5) for t in itertools.product(S2, repeat=n)]
    words = SIGMA + ['\\begin{a}', '\\end{a}', '\\left(', '\\big|', '\\item', '\\x', '$$', '\\[', '\\]', '%c\n', '\\%', '\\\\', 'é', '😂', '\r\n', '\r', '\t']
    for _ in range(300 if tier == 'quick' else 5000):
        cases.append(''.join(rnd.choice(words) for _ in range(rnd.randrange(5, 30))))
    for s, r in zip(cases, pmap(check, cases)):
        sw.case(s if len(s) != 1 else 'U+%04X' % ord(s), len(s) > 0)
        if r:
            sw.violation(r[0], r[1], replay_src(s), s)
    sw.emit()


if __name__ == '__main__':
    main(sys.argv[1] if len(sys.argv) > 1 else 'quick')
