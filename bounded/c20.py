"""C20 bounded stand-in: breadth-first exploration of Buffer operation sequences against a list+index model."""
import itertools
import sys

from common import Sweep, REPLAY_HEAD

from TexSoup.utils import Buffer, Token


def ops_for(n, i):
    """operations applicable (in range) at cursor i over a sequence of length n"""
    out = [('next',), ('hasNext', 1), ('hasNext', 2), ('peek', 0), ('peek', 1), ('peek', 3), ('position',),
           ('peekr', 0, 2), ('peekr', 0, 5), ('slice', 0, 2), ('slice', 1, None), ('slice', None, 2), ('item', 0),
           ('item', 1), ('item', 7), ('startswith', 'a'), ('startswith', 'ab'), ('fu', 'b'), ('nfu', 'b'),
           ('fu', 'z'), ('nfu', 'z')]
    # endswith with a text longer than what has been consumed: a plain list prefix shorter than the text cannot end with it
    out += [('endswith', 'aa'), ('endswith', 'ab'), ('endswith', 'ba'), ('endswith', 'aab')]
    for j in (1, 2):
        if i + j <= n:
            out.append(('forward', j))
        if i - j >= 0:
            out.append(('backward', j))
            out.append(('peek', -j))
            out.append(('peekr', -j, 1))
            out.append(('endswith', 'ab'[:j]))
    if i < n:
        pass
    return out


def text(x):
    return None if x is None else str(x)


def model_apply(seq, i, op):
    """-> (result, new index); results are compared textually"""
    n = len(seq)
    k = op[0]
    if k == 'next':
        return ((seq[i], i + 1) if i < n else ('StopIteration', i))
    if k == 'hasNext':
        return (i + op[1] - 1 < n, i)
    if k == 'peek':
        j = i + op[1]
        return ((seq[j] if j < n else None), i)
    if k == 'peekr':
        return (''.join(seq[i + op[1]:i + op[2]]), i)
    if k == 'slice':
        return (''.join(seq[op[1]:op[2]]), i)
    if k == 'item':
        return ((seq[op[1]] if op[1] < n else 'IndexError'), i)
    if k == 'position':
        return (i, i)
    if k == 'startswith':
        return (''.join(seq[i:i + len(op[1])]).startswith(op[1]), i)
    if k == 'endswith':
        return (''.join(seq[max(i - len(op[1]), 0):i]).endswith(op[1]), i)
    if k == 'forward':
        return (''.join(seq[i:i + op[1]]), i + op[1])
    if k == 'backward':
        return (''.join(seq[i - op[1]:i]), i - op[1])
    if k in ('fu', 'nfu'):
        j = i
        while j < n and seq[j] != op[1]:
            j += 1
        if k == 'fu':
            if i >= n:
                return ('skip', i)      # forward_until at the end is outside the property (D3 is a C06 matter)
            return (''.join(seq[i:j]), j)
        return (j - i, i)
    raise ValueError(op)


def real_apply(buf, op):
    k = op[0]
    try:
        if k == 'next':
            return text(next(buf))
        if k == 'hasNext':
            return buf.hasNext(op[1])
        if k == 'peek':
            return text(buf.peek(op[1]))
        if k == 'peekr':
            return text(buf.peek((op[1], op[2])))
        if k == 'slice':
            return text(buf[op[1]:op[2]])
        if k == 'item':
            return text(buf[op[1]])
        if k == 'position':
            return buf.position
        if k == 'startswith':
            return buf.startswith(op[1])
        if k == 'endswith':
            return buf.endswith(op[1])
        if k == 'forward':
            return text(buf.forward(op[1]))
        if k == 'backward':
            return text(buf.backward(op[1]))
        if k == 'fu':
            if not buf.hasNext():
                return 'skip'
            return text(buf.forward_until(lambda t, c=op[1]: t == c))
        if k == 'nfu':
            return buf.num_forward_until(lambda t, c=op[1]: t == c)
    except StopIteration:
        return 'StopIteration'
    except IndexError:
        return 'IndexError'
    raise ValueError(op)


def make(kind, seq):
    if kind == 'str':
        return Buffer(''.join(seq))
    return Buffer(iter([Token(c, 10 + k, 30) for k, c in enumerate(seq)]))


def replay_src(kind, seq, ops):
    return REPLAY_HEAD + '''sys.path.insert(0, %r)
import c20
seq, ops, kind = %r, %r, %r
buf = c20.make(kind, seq); i = 0
for op in ops:
    want, i = c20.model_apply(seq, i, op)
    got = c20.real_apply(buf, op)
    if want == 'skip': continue
    if got != want or buf.position != i:
        print('C20 violated after', op, ': got', repr(got), 'cursor', buf.position, '; list model gives', repr(want), 'cursor', i)
        sys.exit(1)
print('no violation'); sys.exit(0)
''' % (__file__.rsplit('/', 1)[0], seq, ops, kind)


def main(depth, maxlen):
    sw = Sweep('C20 buffer-vs-list BFS', {'depth': depth, 'max_len': maxlen, 'alphabet': 'ab', 'kinds': ['str', 'tokens']})
    for kind in ('str', 'tok'):
        for n in range(0, maxlen + 1):
            for seq in itertools.product('ab', repeat=n):
                seq = list(seq)
                frontier = [((), 0)]
                for d in range(depth):
                    nxt = []
                    for hist, i in frontier:
                        for op in ops_for(n, i):
                            # replay the history on a fresh real buffer (buffers are not copyable)
                            buf = make(kind, seq)
                            ii = 0
                            for h in hist:
                                real_apply(buf, h)
                                _, ii = model_apply(seq, ii, h)
                            want, i2 = model_apply(seq, ii, op)
                            try:
                                got = real_apply(buf, op)
                            except Exception as e:      # any other exception is a violation
                                got = 'EXC:' + type(e).__name__
                            sw.case((kind, ''.join(seq), hist + (op,)), nontrivial=len(hist) > 0 or n > 0)
                            if want != 'skip' and (got != want or buf.position != i2):
                                sw.violation('buffer-model-mismatch:' + op[0],
                                             '%s-backed %r after %r: real %r@%d, model %r@%d' % (
                                                 kind, ''.join(seq), hist + (op,), got, buf.position, want, i2),
                                             replay_src(kind, seq, list(hist + (op,))))
                            elif d + 1 < depth and op[0] in ('next', 'forward', 'backward', 'peek', 'fu', 'hasNext', 'slice'):
                                nxt.append((hist + (op,), i2))
                    # keep the frontier small: one history per (cursor, last op kind)
                    seen = {}
                    for h, i in nxt:
                        seen.setdefault((i, h[-1][0], len(h)), (h, i))
                    frontier = list(seen.values())
    # random longer histories on longer sequences (moves by larger steps, reads past the end followed by moves back)
    import random
    rnd = random.Random(int(__import__('os').environ.get('VERIF_SEED', '0') or 0))
    trials = 6000 if depth <= 3 else 60000
    for t in range(trials):
        kind = rnd.choice(('str', 'tok'))
        n = rnd.choice([0, 1, 2, 3, 5, 17, 20, 33, 40])
        seq = [rnd.choice('ab') for _ in range(n)]
        buf = make(kind, seq)
        i = 0
        hist = []
        for step in range(rnd.randrange(2, 14)):
            cands = [('next',), ('hasNext', 1), ('peek', rnd.randrange(0, 25)), ('position',), ('item', rnd.randrange(0, n + 2)),
                     ('slice', rnd.randrange(0, n + 1), None), ('peekr', 0, rnd.randrange(0, 25)), ('startswith', 'ab'),
                     ('nfu', 'b'), ('fu', 'b')]
            if i < n:
                cands.append(('forward', rnd.randrange(1, n - i + 1)))
            if i > 0:
                j = rnd.randrange(1, i + 1)
                cands += [('backward', j), ('peek', -j), ('peekr', -j, 1)]
            op = rnd.choice(cands)
            want, i2 = model_apply(seq, i, op)
            try:
                got = real_apply(buf, op)
            except Exception as e:
                got = 'EXC:' + type(e).__name__
            hist.append(op)
            sw.case((kind, ''.join(seq), tuple(hist)), True)
            if want == 'skip':
                i = buf.position
                continue
            if got != want or buf.position != i2:
                sw.violation('buffer-model-mismatch:' + op[0],
                             '%s-backed %r after %r: real %r@%d, model %r@%d' % (kind, ''.join(seq), hist, got, buf.position, want, i2),
                             replay_src(kind, seq, list(hist)))
                break
            i = i2
    sw.emit()


if __name__ == '__main__':
    tier = sys.argv[1] if len(sys.argv) > 1 else 'quick'
    main(3 if tier == 'quick' else 5, 3 if tier == 'quick' else 4)
