"""Generator of well-formed documents from the grammar of documented constructs, together with the generating
syntax tree (the oracle of C02), and the shape function of a TexSoup tree for comparison.

Trees:  ('text', s) | ('comment', s) | ('cmd', name, args, items) | ('env', name, args, children)
        | ('group', children) | ('math', opener, children) | ('verb', name, body)
args:   [('[' | '{', children), ...]
"""
import random

from TexSoup.data import (TexExpr, TexText, TexCmd, TexNamedEnv, BraceGroup, BracketGroup, TexMathModeEnv,
                          TexDisplayMathModeEnv, TexMathEnv, TexDisplayMathEnv, TexEnv)
from TexSoup.utils import TC

TEXTS = ['a', 'b c', 'x+1', '.', ',', 'word ', ' and ', '12', '!']
ESCAPED = ['\\%', '\\$', '\\&', '\\#', '\\_', '\\{', '\\}', '\\\\']
CMDS = ['foo', 'bar', 'emph', 'ref', 'cite']
ENVS = ['a', 'center', 'tabular']
MATH = [('$', '$'), ('$$', '$$'), ('\\(', '\\)'), ('\\[', '\\]')]
MATHENVS = ['equation', 'align*']
VERBS = ['verbatim', 'lstlisting']
DEFS = ['newcommand', 'renewcommand', 'providecommand']
VERB_BODIES = ['x', '$ {', '\\x{', '% }\n y', 'a\\begin{b}', ']} $$']


class Gen:
    def __init__(self, rnd, depth):
        self.rnd, self.depth = rnd, depth
        self.noverb = 0       # verbatim-like environments are only generated at top level / directly in environments

    def text(self):
        t = self.rnd.choice(TEXTS + ESCAPED[:3]) if self.rnd.random() < 0.85 else self.rnd.choice(ESCAPED)
        return t, ('text', t)

    def guard(self, s, t):
        """a body that would otherwise be read as an argument of the construct before it gets a leading '.'"""
        if s[:1] in '{[ \n\t' or s == '':
            return '.' + s, [('text', '.')] + t
        return s, t

    def seq(self, d, n=None, math=False, in_bracket=False):
        """a sequence of constructs; returns (text, [trees])"""
        n = self.rnd.randrange(0, 4) if n is None else n
        out_s, out_t = '', []
        for _ in range(n):
            s, t = self.construct(d, math, in_bracket)
            # a command name must not run into following letters, nor pick up a following group / spaces as argument
            if out_t and out_t[-1][0] == 'cmd' and self._open_cmd(out_t[-1]) and (s[:1].isalpha() or s[:1] in ' \n\t{[*'):
                out_s += '.'
                out_t.append(('text', '.'))
            if out_t and out_t[-1][0] == 'cmd' and not self._open_cmd(out_t[-1]) and s[:1] in '{[' or \
                    out_t and out_t[-1][0] == 'cmd' and s[:1] in ' \n\t':
                out_s += '.'
                out_t.append(('text', '.'))
            if out_s.endswith('$') and s.startswith('$'):
                out_s += '.'
                out_t.append(('text', '.'))
            out_s += s
            out_t.append(t)
        return out_s, out_t

    @staticmethod
    def _open_cmd(t):
        return not t[2] and not t[3]

    def construct(self, d, math=False, in_bracket=False):
        r = self.rnd.random()
        if d <= 0 or r < 0.35:
            return self.text()
        if r < 0.5:
            return self.command(d, math)
        if r < 0.58 and not in_bracket:
            self.noverb += 1
            body_s, body_t = self.seq(d - 1, math=math)
            self.noverb -= 1
            return '{' + body_s + '}', ('group', body_t)
        if r < 0.66 and not math:
            o, c = self.rnd.choice(MATH)
            body_s, body_t = self.seq(d - 1, n=self.rnd.randrange(1, 3), math=True)
            return o + body_s + c, ('math', o, body_t)
        if r < 0.76 and not math:
            return self.env(d)
        if r < 0.82 and not math:
            return self.itemize(d)
        if r < 0.86 and not math:
            name = self.rnd.choice(MATHENVS)
            body_s, body_t = self.guard(*self.seq(d - 1, n=self.rnd.randrange(1, 3), math=True))
            return '\\begin{%s}%s\\end{%s}' % (name, body_s, name), ('env', name, [], body_t)
        if r < 0.9 and not math and not in_bracket and not self.noverb:
            name = self.rnd.choice(VERBS)
            body = '\n' + self.rnd.choice(VERB_BODIES) + '\n'
            return '\\begin{%s}%s\\end{%s}' % (name, body, name), ('verb', name, body)
        if r < 0.95 and not math:
            c = '%' + self.rnd.choice(['', ' note', '{', '}$', '\\end{a}', '\\item'])
            return c + '\n', ('comment+nl', c)
        if r < 0.985 and not math and not in_bracket:
            return self.definition(d)
        return self.text()

    # ------------------------------------------------------------------ \newcommand-style definitions
    def definition(self, d):
        """\\newcommand{\\name}[n][default]{body}: in the body \\begin / \\end are ordinary commands (they open and
        close nothing), at any depth of nested command arguments"""
        cmd = self.rnd.choice(DEFS)
        name = self.rnd.choice(['x', 'wrap', 'open'])
        s = '\\%s{\\%s}' % (cmd, name)
        a = [('{', [('cmd', name, [], [])])]
        if self.rnd.random() < 0.5:
            n = self.rnd.choice('12')
            s += '[%s]' % n
            a.append(('[', [('text', n)]))
            if self.rnd.random() < 0.3:
                s += '[d]'
                a.append(('[', [('text', 'd')]))
        self.noverb += 1
        body_s, body_t = self.special_seq(max(d - 1, 1))
        self.noverb -= 1
        s += '{' + body_s + '}'
        a.append(('{', body_t))
        return s, ('cmd', cmd, a, [])

    def special_seq(self, d):
        out_s, out_t = '', []
        for _ in range(self.rnd.randrange(1, 4)):
            s, t = self.special_construct(d)
            if out_t and out_t[-1][0] == 'cmd' and (s[:1].isalpha() or s[:1] in ' \n\t{[*'):
                out_s += '.'
                out_t.append(('text', '.'))
            out_s += s
            out_t.append(t)
        return out_s, out_t

    def special_construct(self, d):
        r = self.rnd.random()
        if r < 0.3:
            t = self.rnd.choice(['a', '#1', 'x+1', ', '])
            return t, ('text', t)
        if r < 0.65:
            which = self.rnd.choice(['begin', 'end'])
            q = self.rnd.choice(['quote', 'a', 'itemize'])
            return '\\%s{%s}' % (which, q), ('cmd', which, [('{', [('text', q)])], [])
        if r < 0.9 and d > 0:
            name = self.rnd.choice(CMDS)
            a_s, a_t = '', []
            if self.rnd.random() < 0.3:
                a_s, a_t = '[o]', [('[', [('text', 'o')])]
            for _ in range(self.rnd.randrange(1, 3)):
                s, t = self.special_seq(d - 1)
                a_s += '{' + s + '}'
                a_t.append(('{', t))
            return '\\' + name + a_s, ('cmd', name, a_t, [])
        s, t = self.special_seq(d - 1) if d > 0 else ('a', [('text', 'a')])
        return '{' + s + '}', ('group', t)

    def args(self, d, math):
        out_s, out_t = '', []
        self.noverb += 1
        for _ in range(self.rnd.randrange(0, 2)):
            s, t = self.seq(d - 1, n=self.rnd.randrange(0, 3), math=math, in_bracket=True)
            if ']' in s or '[' in s:
                continue
            out_s += '[' + s + ']'
            out_t.append(('[', t))
        for _ in range(self.rnd.randrange(0, 3)):
            s, t = self.seq(d - 1, n=self.rnd.randrange(0, 3), math=math)
            out_s += '{' + s + '}'
            out_t.append(('{', t))
        self.noverb -= 1
        return out_s, out_t

    def command(self, d, math):
        name = self.rnd.choice(CMDS)
        a_s, a_t = self.args(d, math)
        return '\\' + name + a_s, ('cmd', name, a_t, [])

    def env(self, d):
        name = self.rnd.choice(ENVS)
        a_s, a_t = ('', [])
        if self.rnd.random() < 0.25:        # optional argument of the environment, e.g. \\begin{theorem}[see \\cite{k}]
            self.noverb += 1
            s, t = self.seq(d - 1, n=self.rnd.randrange(1, 3), in_bracket=True)
            self.noverb -= 1
            if ']' not in s and '[' not in s:
                a_s, a_t = '[' + s + ']', [('[', t)]
        if self.rnd.random() < 0.3:
            self.noverb += 1
            s, t = self.seq(d - 1, n=1)
            self.noverb -= 1
            a_s, a_t = a_s + '{' + s + '}', a_t + [('{', t)]
        body_s, body_t = self.guard(*self.seq(d - 1))
        return '\\begin{%s}%s%s\\end{%s}' % (name, a_s, body_s, name), ('env', name, a_t, body_t)

    def itemize(self, d):
        items_s, items_t = '', []
        for _ in range(self.rnd.randrange(1, 4)):
            self.noverb += 1
            s, t = self.guard(*self.seq(d - 1, n=self.rnd.randrange(1, 3)))
            self.noverb -= 1
            s, t = ' ' + s, [('text', ' ')] + t
            items_s += '\\item' + s
            items_t.append(('cmd', 'item', [], t))
        return '\\begin{itemize}%s\\end{itemize}' % items_s, ('env', 'itemize', [], items_t)


def document(seed, depth=3):
    g = Gen(random.Random(seed), depth)
    s, t = g.seq(depth, n=g.rnd.randrange(1, 5))
    return s, t


# ---------------------------------------------------------------------- normal form shared by oracle and parse tree
def norm(trees):
    """merge adjacent text leaves; a comment stays a leaf of its own; ('comment+nl', c) is comment c then text '\\n'"""
    out = []
    for t in trees:
        if t[0] == 'comment+nl':
            out.append(('comment', t[1]))
            t = ('text', '\n')
        if t[0] == 'text':
            if t[1] == '':
                continue
            if out and out[-1][0] == 'text':
                out[-1] = ('text', out[-1][1] + t[1])
            else:
                out.append(t)
        elif t[0] == 'cmd':
            out.append(('cmd', t[1], [(k, norm(c)) for k, c in t[2]], norm(t[3])))
        elif t[0] == 'env':
            out.append(('env', t[1], [(k, norm(c)) for k, c in t[2]], norm(t[3])))
        elif t[0] == 'group':
            out.append(('group', norm(t[1])))
        elif t[0] == 'math':
            out.append(('math', t[1], norm(t[2])))
        elif t[0] == 'verb':
            out.append(('env', t[1], [], [('text', t[2])] if t[2] else []))
        else:
            out.append(t)
    return out


def shape_of(items):
    """the same normal form computed from TexSoup expressions / raw tokens"""
    out = []
    for e in items:
        if isinstance(e, TexText):
            tok = e._text
            if getattr(tok, 'category', None) == TC.Comment:
                out.append(('comment', str(tok)))
            else:
                out.append(('text', str(tok)))
        elif isinstance(e, TexCmd):
            out.append(('cmd', e.name, [args_shape(a) for a in e.args], e._contents))
        elif isinstance(e, TexNamedEnv):
            out.append(('env', e.name, [args_shape(a) for a in e.args], e._contents))
        elif isinstance(e, BraceGroup):
            out.append(('group', e._contents))
        elif isinstance(e, (TexMathModeEnv, TexDisplayMathModeEnv, TexMathEnv, TexDisplayMathEnv)):
            out.append(('math', e.begin, e._contents))
        elif isinstance(e, BracketGroup):
            out.append(('bracketgroup', e._contents))
        else:
            out.append(('text', str(e)))
    res = []
    for t in out:
        if t[0] == 'cmd':
            res.append(('cmd', t[1], t[2], shape_of(t[3])))
        elif t[0] == 'env':
            res.append(('env', t[1], t[2], shape_of(t[3])))
        elif t[0] == 'group':
            res.append(('group', shape_of(t[1])))
        elif t[0] == 'math':
            res.append(('math', t[1], shape_of(t[2])))
        elif t[0] == 'bracketgroup':
            res.append(('bracketgroup', shape_of(t[1])))
        else:
            res.append(t)
    return norm(res)


def args_shape(a):
    return ('[' if isinstance(a, BracketGroup) else '{', shape_of(a._contents))
