"""Bounded stand-ins over generated well-formed documents (grammar of documented constructs, generating tree as oracle):
C01 round trip and node slices, C02 tree shape, C03 search, C04 navigation views.

usage: tree.py <tier> <property id>
"""
import os
import re
import sys

from common import Sweep, REPLAY_HEAD, pmap

import gen
from TexSoup import TexSoup
from TexSoup.data import TexExpr, TexText, TexCmd, TexEnv, TexNode, TexNamedEnv
from TexSoup.utils import Token

PROP = None
DEPTH = 3


def finding_class(s, err=None):
    if isinstance(err, AssertionError) and re.search(r'\\end\{(equation|align\*)\}\s?[{\[]', s):
        return 'D20'
    return None


def names_in(trees, acc):
    for t in trees:
        if t[0] == 'cmd':
            acc.append(('cmd', t[1], t))
            for _, c in t[2]:
                names_in(c, acc)
            names_in(t[3], acc)
        elif t[0] == 'env':
            acc.append(('env', t[1], t))
            for _, c in t[2]:
                names_in(c, acc)
            names_in(t[3], acc)
        elif t[0] == 'group':
            names_in(t[1], acc)
        elif t[0] == 'math':
            names_in(t[2], acc)
    return acc


def all_nodes(node):
    """every TexNode reachable through contents (independent walker: args included via expr.all)"""
    yield node
    for c in node.contents:
        if isinstance(c, TexNode):
            yield from all_nodes(c)


def check(seed):
    s, t = gen.document(seed, DEPTH)
    out = []
    try:
        soup = TexSoup(s)
    except Exception as e:
        if PROP in ('C01', 'C02'):
            out.append((finding_class(s, e) or 'well-formed-document-rejected',
                        'TexSoup(%r) raised %s: %s' % (s, type(e).__name__, str(e)[:60])))
        return out
    if PROP == 'C02':
        exp, got = gen.norm(t), gen.shape_of(soup.expr._contents)
        if exp != got:
            out.append(('tree-shape', 'tree of %r is %r, the document was generated from %r' % (s, got, exp)))
    elif PROP == 'C01':
        if str(soup) != s:
            out.append(('round-trip', 'str(TexSoup(%r)) == %r' % (s, str(soup))))
        for n in all_nodes(soup):
            if n is soup or n.position in (None, -1):
                continue
            txt = str(n)
            if s[n.position:n.position + len(txt)] != txt:
                out.append(('node-slice', 'in %r the node %r at %r is not the slice of the source' % (s, txt, n.position)))
                break
        # text leaves (tokens kept raw in content lists: verbatim bodies, text runs) record their offsets too
        def leaves(e):
            for c in e.all:
                if isinstance(c, TexExpr) and not isinstance(c, TexText):
                    yield from leaves(c)
                else:
                    yield c._text if isinstance(c, TexText) else c
        for t in leaves(soup.expr):
            p = getattr(t, 'position', None)
            if isinstance(p, int) and p >= 0 and s[p:p + len(str(t))] != str(t):
                out.append(('leaf-slice', 'in %r the text %r recorded at %r is not the slice of the source' % (s, str(t), p)))
                break
    elif PROP == 'C03':
        out += check_search(s, t, soup)
    elif PROP == 'C04':
        out += check_views(s, soup)
    return out


def check_search(s, t, soup):
    out = []
    occ = names_in(gen.norm(t), [])
    names = sorted({n for _, n, _ in occ}) + ['absentname']
    for name in names:
        expected = sum(1 for _, n, _ in occ if n == name)
        found = soup.find_all(name)
        if len(found) != expected or any(f.name != name for f in found):
            out.append(('find_all', 'find_all(%r) in %r returns %d nodes, the document has %d' % (name, s, len(found), expected)))
        if soup.count(name) != expected:
            out.append(('count', 'count(%r) in %r is %d, expected %d' % (name, s, soup.count(name), expected)))
        first = soup.find(name)
        if (first is None) != (expected == 0) or (first is not None and str(first) != str(found[0])):
            out.append(('find', 'find(%r) in %r is %r' % (name, s, first)))
        if name not in dir(TexNode) and name != 'item':
            got = getattr(soup, name)
            if (got is None) != (expected == 0) or (got is not None and str(got) != str(found[0])):
                out.append(('getattr', 'soup.%s in %r is %r' % (name, s, got)))
    if len(names) > 2:
        two = names[:2]
        exp2 = sum(1 for _, n, _ in occ if n in two)
        if len(soup.find_all(two)) != exp2:
            out.append(('find_all-list', 'find_all(%r) in %r returns %d, expected %d' % (two, s, len(soup.find_all(two)), exp2)))
    # full-expression queries: the text of a command, the opening of an environment.  A query matches the nodes whose
    # text equals it and the named environments whose opening (with or without arguments) equals it
    nodes = list(all_nodes(soup))[1:]

    def expected(q):
        return sum(1 for m in nodes if isinstance(m.expr, (TexCmd, TexEnv)) and (
            str(m) == q or isinstance(m.expr, TexNamedEnv) and q in (m.expr.begin + str(m.expr.args), m.expr.begin)))
    for n in nodes[:5]:
        if isinstance(n.expr, TexCmd) and n.expr.args and not str(n).startswith('\\end{'):
            # (a query equal to a closing \\end{name} also selects the environments it closes: TexEnv.__match__ accepts
            # the closing delimiter, which the property's sentence on text/opening queries does not cover; not posed)
            q = str(n)
            if soup.count(q) != expected(q):
                out.append(('full-text-query', 'count(%r) in %r is %d, expected %d' % (q, s, soup.count(q), expected(q))))
        if isinstance(n.expr, (TexCmd, TexEnv)) and ('{' in str(n) or '[' in str(n)) and not str(n).startswith('\\end{') \
                and len(str(n)) < 200:
            q = str(n)          # the whole text of any node: an \\item with its body, an environment, a group, a math region
            if soup.count(q) != expected(q):
                out.append(('full-text-query', 'count(%r) in %r is %d, expected %d' % (q, s, soup.count(q), expected(q))))
        if isinstance(n.expr, TexNamedEnv):
            q = n.expr.begin + str(n.expr.args)
            if soup.count(q) != expected(q):
                out.append(('opening-query', 'count(%r) in %r is %d, expected %d' % (q, s, soup.count(q), expected(q))))
    return out


def unwrap(x):
    return x._text if isinstance(x, TexText) else x


def check_views(s, soup):
    out = []
    if ''.join(str(x) for x in soup.expr.all) != s or ''.join(str(x) for x in soup.all) != s:
        out.append(('root-all', 'the complete content list of the root of %r does not concatenate to it' % s))
    seen = 0
    for n in all_nodes(soup):
        seen += 1
        allx = [unwrap(x) for x in n.expr.all]
        exp_contents = [x for x in allx if not (isinstance(x, str) and x.isspace())]
        got = list(n.contents)
        if [str(x) for x in got] != [str(x) for x in exp_contents]:
            out.append(('contents', 'contents of %r in %r' % (str(n), s)))
        ch = list(n.children)
        exp_ch = [x for x in got if isinstance(x, TexNode)]
        if [str(x) for x in ch] != [str(x) for x in exp_ch]:
            out.append(('children', 'children of %r in %r' % (str(n), s)))
        if [str(x) for x in n] != [str(x) for x in got] or any(str(n[i]) != str(got[i]) for i in range(len(got))):
            out.append(('iteration', 'iteration/indexing of %r in %r' % (str(n), s)))
        for c in got + ch + list(n.descendants):
            if isinstance(c, TexNode) and c.parent is not n and c in got + ch and c.parent is not n:
                out.append(('parent', 'parent of %r reached from %r in %r' % (str(c), str(n), s)))
        for c in got:
            if isinstance(c, TexNode) and c.parent is not n:
                out.append(('parent', 'parent of %r reached from %r in %r' % (str(c), str(n), s)))
        for i in range(-len(got), len(got)):          # indexing: same elements as contents, reached from this node
            c = n[i]
            if isinstance(c, TexNode) and c.parent is not n:
                out.append(('parent', 'parent of %r reached by indexing %r[%d] in %r is %r' % (str(c), str(n), i, s, c.parent)))
                break
        for c in n:                                    # iteration
            if isinstance(c, TexNode) and c.parent is not n:
                out.append(('parent', 'parent of %r reached by iterating %r in %r' % (str(c), str(n), s)))
                break
        desc = list(n.descendants)
        for d in desc:                                 # walking parents from any descendant ends at the node asked
            p, k = d, 0
            while isinstance(p, TexNode) and p is not n and k < 10000:
                p, k = p.parent, k + 1
            if isinstance(d, TexNode) and p is not n:
                out.append(('parent', 'the parent chain of %r, reached through the descendants of %r in %r, ends at %r'
                            % (str(d), str(n), s, p)))
                break
        closure = []

        def close(m):
            for c in m.contents:
                closure.append(c)
            for c in m.children:
                close(c)
        close(n)
        if sorted(str(x) for x in desc) != sorted(str(x) for x in closure) or len(desc) != len(closure):
            out.append(('descendants', 'descendants of %r in %r' % (str(n), s)))
        texts = []

        def walk_text(m):
            for c in m.contents:
                if isinstance(c, TexNode):
                    walk_text(c)
                elif isinstance(c, (str, Token)):
                    texts.append(str(c))
        walk_text(n)
        if [str(x) for x in n.text] != texts:
            out.append(('text-view', 'text of %r in %r is %r, expected %r' % (str(n), s, [str(x) for x in n.text], texts)))
        if len(out) > 3:
            break
    return out


def replay_src(seed, prop, depth):
    return REPLAY_HEAD + '''sys.path.insert(0, %r)
import tree
tree.PROP, tree.DEPTH = %r, %r
r = tree.check(%r)
print(r or 'no violation'); sys.exit(1 if r else 0)
''' % (os.path.dirname(os.path.abspath(__file__)), prop, depth, seed)


def main(tier, prop):
    global PROP, DEPTH
    PROP = prop
    base = int(os.environ.get('VERIF_SEED', '0') or 0) * 1000003
    n = 3000 if tier == 'quick' else 60000
    DEPTH = 3 if tier == 'quick' else 4
    seeds = [base + k for k in range(n)]
    sw = Sweep('%s generated-document sweep' % prop, {'documents': n, 'depth': DEPTH, 'grammar': 'bounded/gen.py'})
    for sd, r in zip(seeds, pmap(check, seeds, chunk=200)):
        sw.case('seed %d' % sd, True)
        for cls, desc in r:
            sw.violation(cls, desc, replay_src(sd, prop, DEPTH), sd)
    sw.samples = [gen.document(sd, DEPTH)[0] for sd in seeds[:3]]
    sw.emit()


if __name__ == '__main__':
    main(sys.argv[1] if len(sys.argv) > 1 else 'quick', sys.argv[2] if len(sys.argv) > 2 else 'C02')
