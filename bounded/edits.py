"""Bounded stand-ins for the edit properties: C05 (single structural edits are local), C14 (rename / re-string /
re-argument), C15 (histories of edits against a reference document model).

The reference model is a plain tree of Python objects mirrored from the parse (kind, name, argument groups, content
list) with its own serialiser; every edit is applied to the real tree through the public TexNode API and to the model
by list surgery at the mirrored place.

usage: edits.py <tier> <property id>
"""
import os
import random
import re
import sys

from common import Sweep, REPLAY_HEAD, pmap

import gen
from TexSoup import TexSoup
from TexSoup.data import (TexExpr, TexText, TexCmd, TexEnv, TexNamedEnv, TexNode, BraceGroup, BracketGroup, TexArgs,
                          TexMathModeEnv, TexDisplayMathModeEnv, TexMathEnv, TexDisplayMathEnv)

PROP = None
DEPTH = 3
NEW_SOURCES = ['\\new{n}', '\\textit{it}', '\\begin{q}z\\end{q}']
NEW_STRINGS = ['TXT', ' s ']
NEW_NESTED = [('\\textbf{\\new{n}}', 'new'), ('\\begin{itemize}\\item \\textit{it} x\\end{itemize}', 'textit'), ('{\\new{n}}', 'new'),
              ('\\foo[\\new{n}]{a}', 'new')]


class M:
    """model node"""

    def __init__(self, cls, name, args, contents, begin='', end=''):
        self.cls, self.name, self.args, self.contents, self.begin, self.end = cls, name, args, contents, begin, end
        self.parent = None

    def ser(self):
        body = ''.join(c if isinstance(c, str) else c.ser() for c in self.contents)
        a = ''.join(g.ser() for g in self.args)
        if self.cls == 'root':
            return body
        if self.cls == 'cmd':
            return '\\' + self.name + a + body
        if self.cls == 'env':
            return '\\begin{%s}' % self.name + a + body + '\\end{%s}' % self.name
        return self.begin + a + body + self.end


def mirror(e, table):
    if isinstance(e, TexText):
        return str(e)
    if not isinstance(e, TexExpr):
        return str(e)
    if isinstance(e, TexCmd):
        m = M('cmd', e.name, [], [])
    elif isinstance(e, TexNamedEnv):
        m = M('env', e.name, [], [])
    elif e.name == '[tex]':
        m = M('root', '', [], [])
    else:
        m = M('delim', e.name, [], [], e.begin, e.end)
    m.args = [mirror(a, table) for a in e.args]
    m.contents = [mirror(c, table) for c in e._contents]
    for x in m.args + m.contents:
        if isinstance(x, M):
            x.parent = m
    table[id(e)] = m
    table.setdefault('$keep', []).append(e)      # keep the expression alive: ids of freed objects are reused
    return m


def container_of(m):
    """(list, index) holding model node m"""
    p = m.parent
    for lst in [p.contents] + [g.contents for g in p.args]:
        for i, x in enumerate(lst):
            if x is m:
                return lst, i
    for i, x in enumerate(p.args):
        if x is m:
            return p.args, i
    raise LookupError


def fresh_material(rnd, k, table=None):
    """k new items: plain strings or copies of nodes parsed elsewhere; returns (real items, model items)"""
    real, model = [], []
    for _ in range(k):
        if rnd.random() < 0.4:
            s = rnd.choice(NEW_STRINGS)
            real.append(s)
            model.append(s)
        else:
            if rnd.random() < 0.5:
                src = rnd.choice(NEW_SOURCES)
                node = list(TexSoup(src).children)[0].copy()
            else:       # a copy of a node that was parsed *inside* an argument group, an \\item or a brace group elsewhere
                src, name = rnd.choice(NEW_NESTED)
                node = TexSoup(src).find(name).copy()
            real.append(node)
            # the inserted expression joins the identity table, so later steps of a history may target it
            model.append(mirror(node.expr, table if table is not None else {}))
    return real, model


def consistent(soup, root):
    """views of the edited tree agree with each other and with the model (inserted material included)"""
    def count(m, name):
        n = 1 if isinstance(m, M) and m.cls in ('cmd', 'env') and m.name == name else 0
        if isinstance(m, M):
            for x in m.args + m.contents:
                n += count(x, name)
        return n
    for name in ('foo', 'new', 'textit', 'q', 'item', 'zz'):
        if soup.count(name) != count(root, name):
            return 'search for %r finds %d nodes, the document has %d' % (name, soup.count(name), count(root, name))
    for d in soup.descendants:
        if isinstance(d, TexNode):
            p = d
            hops = 0
            while p.parent is not None and hops < 100:
                p = p.parent
                hops += 1
            if p is not soup and p.expr is not soup.expr:
                return 'walking parents from %r does not end at the root' % str(d)
    texts = ''.join(str(t) for t in soup.text)

    def mtext(m):
        out = ''
        for g in m.args:
            out += mtext(g)
        for c in m.contents:
            if isinstance(c, str):
                out += c if not c.isspace() else ''
            else:
                out += mtext(c)
        return out
    if texts != mtext(root):
        return 'the text view is %r, the document\'s text leaves are %r' % (texts, mtext(root))
    return None


def finding_class(kind, twin, inserted):
    if twin:
        return 'D9'
    if inserted:
        return 'D10'
    return None


def has_twin(m):
    try:
        lst, i = container_of(m)
    except LookupError:
        return False
    me = m.ser()
    same = [k for k, x in enumerate(lst) if (x if isinstance(x, str) else x.ser()) == me]
    # a textual twin anywhere among the siblings, or in another argument of the same parent (delete searches all of them)
    others = []
    p = m.parent
    for l2 in [p.contents] + [g.contents for g in p.args]:
        others += [x for x in l2 if x is not m and (x if isinstance(x, str) else x.ser()) == me]
    return len(same) > 1 or bool(others)


def run(seed):
    rnd = random.Random(seed)
    s, _ = gen.document(seed, DEPTH)
    try:
        soup = TexSoup(s)
    except Exception:
        return []
    table = {}
    root = mirror(soup.expr, table)
    if root.ser() != str(soup):
        return []
    steps = 1 if PROP in ('C05', 'C14') else rnd.randrange(2, 6)
    inserted = False
    twin_seen = False
    m_old_name = ''
    hist = []
    for step in range(steps):
        nodes = [d for d in soup.descendants if isinstance(d, TexNode) and id(d.expr) in table]
        if not nodes:
            break
        node = rnd.choice(nodes)
        m = table[id(node.expr)]
        ops = ['delete', 'replace', 'insert', 'append', 'remove'] if PROP != 'C14' else []
        if PROP in ('C14', 'C15'):
            ops += ['rename', 'string', 'args-slice', 'args-reverse', 'args-append', 'args-same', 'args-reverse-assign']
        op = rnd.choice(ops)
        twin = has_twin(m) if m.parent is not None else False
        # the real parent of a node inside an argument group is the command/environment owning the group: delete and
        # replace search all of its argument groups and its body, so a twin there counts as well (finding D9)
        try:
            if node.parent is not None:
                me = str(node)
                twin = twin or sum(1 for x in node.parent.expr.all if str(x) == me) > 1
        except Exception:
            pass
        twin_seen = twin_seen or twin
        try:
            if m.parent is not None:
                container_of(m)
        except LookupError:
            if twin_seen:
                break       # the model and the tree already diverged in identity through a textual twin (finding D9)
        desc = '%s on %r' % (op, str(node)[:40])
        try:
            if op == 'delete':
                lst, i = container_of(m)
                node.delete()
                del lst[i]
            elif op == 'replace':
                real, model = fresh_material(rnd, rnd.randrange(1, 4), table)
                lst, i = container_of(m)
                node.replace_with(*real)
                lst[i:i + 1] = model
                for x in model:
                    if isinstance(x, M):
                        x.parent = m.parent
                inserted = True
            elif op in ('insert', 'append'):
                if m.cls not in ('env', 'delim') and not (m.cls == 'cmd' and m.name == 'item'):
                    continue
                real, model = fresh_material(rnd, rnd.randrange(1, 3), table)
                if op == 'insert':
                    i = rnd.randrange(0, len(m.contents) + 1)
                    node.insert(i, *real)
                    m.contents[i:i] = model
                else:
                    node.append(*real)
                    m.contents.extend(model)
                for x in model:
                    if isinstance(x, M):
                        x.parent = m
                inserted = True
            elif op == 'remove':
                if m.cls == 'cmd' and m.name != 'item':
                    continue
                kids = [c for c in node.children if id(c.expr) in table and table[id(c.expr)] in m.contents]
                if not kids:
                    continue
                child = rnd.choice(kids)
                cm = table[id(child.expr)]
                twin = len([x for x in m.contents if (x if isinstance(x, str) else x.ser()) == cm.ser()]) > 1
                twin_seen = twin_seen or twin
                node.remove(child)
                m.contents.remove(cm)
            elif op == 'rename':
                if m.cls not in ('cmd', 'env'):
                    continue
                if m.name == 'item' and m.contents:
                    continue        # a renamed \\item would no longer accept edits of its contents (API restriction)
                m_old_name = m.name
                soup.count(m_old_name)          # visited by a search before the rename
                node.name = 'zz'
                m.name = 'zz'
            elif op == 'string':
                if m.cls == 'cmd' and len(m.args) == 1:
                    node.string = 'NEWSTR'
                    m.args[0].contents = ['NEWSTR']
                    inserted = True
                elif m.cls == 'env' and len(m.contents) == 1 and isinstance(m.contents[0], str) and not m.args:
                    node.string = 'NEWSTR'
                    m.contents = ['NEWSTR']
                    inserted = True
                else:
                    continue
            elif op == 'args-slice':
                if m.cls not in ('cmd', 'env') or len(m.args) < 2:
                    continue
                node.args = node.args[:len(m.args) - 1]
                m.args = m.args[:-1]
            elif op == 'args-reverse':
                if m.cls not in ('cmd', 'env') or len(m.args) < 2:
                    continue
                node.args.reverse()
                m.args.reverse()
            elif op == 'args-same':                    # the live list assigned back: nothing changes (aliasing)
                if m.cls not in ('cmd', 'env') or not m.args:
                    continue
                node.args = node.args
            elif op == 'args-reverse-assign':          # the live list reordered in place and assigned back
                if m.cls not in ('cmd', 'env') or len(m.args) < 2:
                    continue
                live = node.args
                live.reverse()
                node.args = live
                m.args.reverse()
            elif op == 'args-append':
                if m.cls not in ('cmd', 'env'):
                    continue
                inserted = True
                node.args.append('{more}')
                g = M('delim', 'BraceGroup', [], ['more'], '{', '}')
                g.parent = m
                m.args.append(g)
        except Exception as e:
            return [(finding_class(op, twin or twin_seen, inserted) or 'edit-raises',
                     'document %r: %s raised %s: %s' % (s, desc, type(e).__name__, str(e)[:60]))]
        hist.append(desc)
        got, want = str(soup), root.ser()
        if got != want:
            # (an earlier step that acted on a textual twin may have removed another object than the model did:
            # every later difference in this history is the same finding D9)
            return [(finding_class(op, twin or twin_seen, inserted and op not in ('replace', 'insert', 'append')) or 'edit-not-local',
                     'document %r after %s: text is %r, the reference model gives %r' % (s, '; '.join(hist), got, want))]
        if PROP == 'C14' and op in ('rename', 'string', 'args-slice', 'args-reverse', 'args-append', 'args-same', 'args-reverse-assign'):
            try:
                again = TexSoup(got)
                if str(again) != got:
                    return [('reparse-differs', 'document %r after %s: re-parsing %r gives %r' % (s, desc, got, str(again)))]
                if op == 'rename' and (again.count('zz') != soup.count('zz') or again.count(m_old_name) != soup.count(m_old_name)):
                    return [('rename-not-visible', 'document %r after %s: search sees %d, re-parsed %d'
                             % (s, desc, soup.count('zz'), again.count('zz')))]
            except Exception:
                pass
        if PROP == 'C15':
            c = consistent(soup, root)
            if c:
                return [(finding_class(op, twin_seen, inserted) or 'views-inconsistent',
                         'document %r after %s: %s' % (s, '; '.join(hist), c))]
    return []


# documents with textual twins and near-twins (siblings that differ only by a blank between sub-nodes, arguments that
# read the same): every node x every applicable edit
EXTRA_DOCS = ['{\\a \\b}{\\a\\b}x', '$\\a \\b$ and $\\a\\b$', '\\begin{center} \\x\\end{center}\\begin{center}\\x\\end{center}',
              '\\foo{\\a \\b}{\\a\\b}', '\\frac{1}{1}{x}', '\\infer{A}{B}{A}', '\\multicolumn{c}{c}{c} t',
              '\\begin{itemize}\\item {\\a \\b}\\item {\\a\\b}\\end{itemize}', '\\begin{center}x\\end{center} \\begin{quote}y\\end{quote}']


def run_extra(case):
    """one edit on one node of an extra document, against the reference model"""
    doc, k, op, arg = case
    soup = TexSoup(doc)
    table = {}
    root = mirror(soup.expr, table)
    nodes = [d for d in soup.descendants if isinstance(d, TexNode) and id(d.expr) in table]
    if k >= len(nodes):
        return []
    node = nodes[k]
    m = table[id(node.expr)]
    twin = has_twin(m) if m.parent is not None else False
    try:
        if node.parent is not None:
            me = str(node)
            twin = twin or sum(1 for x in node.parent.expr.all if str(x) == me) > 1
    except Exception:
        pass
    desc = '%s %r on %r' % (op, arg, str(node)[:40])
    old_name = m.name
    try:
        if op == 'delete':
            lst, i = container_of(m)
            list(soup.find_all(old_name)) if old_name else None
            node.delete()
            del lst[i]
        elif op == 'replace':
            lst, i = container_of(m)
            node.replace_with('NEW')
            lst[i:i + 1] = ['NEW']
        elif op == 'slice':
            if m.cls not in ('cmd', 'env') or len(m.args) < 2:
                return []
            a, b = arg
            node.args = node.args[a:b]
            m.args = m.args[a:b]
        elif op == 'rename':
            if m.cls not in ('cmd', 'env') or (m.name == 'item' and m.contents):
                return []
            before_old = soup.count(old_name)       # the node has been visited by a search before the rename
            node.name = 'zz'
            m.name = 'zz'
            again = TexSoup(str(soup))
            if soup.count(old_name) != again.count(old_name) or soup.count('zz') != again.count('zz') or \
                    soup.count(old_name) != before_old - 1:
                return [('rename-not-visible', 'document %r after %s: search for the old name %r finds %d (re-parsed: %d, '
                         'before: %d), for the new name %d (re-parsed: %d)' % (doc, desc, old_name, soup.count(old_name),
                                                                               again.count(old_name), before_old,
                                                                               soup.count('zz'), again.count('zz')))]
    except Exception as e:
        return [(finding_class(op, twin, False) or 'edit-raises', 'document %r: %s raised %s: %s' % (doc, desc, type(e).__name__, str(e)[:60]))]
    got, want = str(soup), root.ser()
    if got != want:
        return [(finding_class(op, twin, False) or 'edit-not-local',
                 'document %r after %s: text is %r, the reference model gives %r' % (doc, desc, got, want))]
    return []


def extra_cases(prop):
    out = []
    for doc in EXTRA_DOCS:
        n = len([d for d in TexSoup(doc).descendants if isinstance(d, TexNode)])
        for k in range(n):
            if prop in ('C05', 'C15'):
                out += [(doc, k, 'delete', None), (doc, k, 'replace', None)]
            if prop in ('C14', 'C15'):
                out += [(doc, k, 'rename', None)]
                out += [(doc, k, 'slice', (a, b)) for a in (0, 1, 2, None) for b in (1, 2, 3, None)]
    return out


def replay_extra(case, prop):
    return REPLAY_HEAD + '''sys.path.insert(0, %r)
import edits
edits.PROP = %r
r = edits.run_extra(%r)
print(r or 'no violation'); sys.exit(1 if r else 0)
''' % (os.path.dirname(os.path.abspath(__file__)), prop, case)


def replay_src(seed, prop, depth):
    return REPLAY_HEAD + '''sys.path.insert(0, %r)
import edits
edits.PROP, edits.DEPTH = %r, %r
r = edits.run(%r)
print(r or 'no violation'); sys.exit(1 if r else 0)
''' % (os.path.dirname(os.path.abspath(__file__)), prop, depth, seed)


def main(tier, prop):
    global PROP, DEPTH
    PROP = prop
    base = int(os.environ.get('VERIF_SEED', '0') or 0) * 7919
    n = 4000 if tier == 'quick' else 80000
    DEPTH = 3
    seeds = [base + k for k in range(n)]
    sw = Sweep('%s edit sweep' % prop, {'documents': n, 'depth': DEPTH, 'edits_per_document': '1' if prop != 'C15' else '2..5'})
    for sd, r in zip(seeds, pmap(run, seeds, chunk=200)):
        sw.case('seed %d' % sd, True)
        for cls, desc in r:
            sw.violation(cls, desc, replay_src(sd, prop, DEPTH), sd)
    for case in extra_cases(prop):
        sw.case('extra %r' % (case,), True)
        for cls, desc in run_extra(case):
            sw.violation(cls, desc, replay_extra(case, prop), case[0])
    sw.emit()


if __name__ == '__main__':
    main(sys.argv[1] if len(sys.argv) > 1 else 'quick', sys.argv[2] if len(sys.argv) > 2 else 'C05')
