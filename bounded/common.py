"""Shared helpers of the bounded stand-in layer (run under /venv/bin/python against the working tree).

Everything here is *bounded*: enumerations with a stated bound, evaluated on the real functions.  Results are
reported as JSON on stdout (last line, prefixed @@BOUNDED@@) and are never counted as discharged obligations."""
import json
import os
import sys

REPO = os.environ.get('VERIF_REPO', '/repo')
if REPO not in sys.path:
    sys.path.insert(0, REPO)


class Sweep:
    def __init__(self, name, bound):
        self.name, self.bound = name, bound
        self.evaluations = 0
        self.nontrivial = set()
        self.violations = []
        self.samples = []

    def case(self, key, nontrivial=True):
        self.evaluations += 1
        if nontrivial:
            self.nontrivial.add(key)
        if len(self.samples) < 5:
            self.samples.append(key if isinstance(key, (str, int, list)) else repr(key))

    def violation(self, cls, desc, replay, inp=None):
        n = sum(1 for v in self.violations if v['class'] == cls)
        self.counts = getattr(self, 'counts', {})
        self.counts[cls] = self.counts.get(cls, 0) + 1
        if n < 5 and len(self.violations) < 400:
            self.violations.append({'class': cls, 'desc': desc, 'replay': replay, 'input': inp})

    def emit(self):
        print('@@BOUNDED@@' + json.dumps({
            'name': self.name, 'bound': self.bound, 'evaluations': self.evaluations,
            'distinct_nontrivial': len(self.nontrivial), 'violations': self.violations, 'samples': self.samples,
            'violation_counts': getattr(self, 'counts', {})}))


REPLAY_HEAD = '''#!/venv/bin/python
# generated replay: exits 1 if the violation reproduces on the tree under VERIF_REPO (default /repo)
import os, sys
sys.path.insert(0, os.environ.get('VERIF_REPO', '/repo'))
'''


def pmap(fn, items, procs=None, chunk=2000):
    """parallel map over a list (fork); fn must be a module-level function"""
    import multiprocessing as mp
    procs = procs or min(16, os.cpu_count() or 4)
    if procs == 1 or len(items) < 2 * chunk:
        return [fn(x) for x in items]
    with mp.get_context('fork').Pool(procs) as pool:
        return pool.map(fn, items, chunksize=chunk)
