"""Bounded stand-in for the whole-pipeline properties (C01, C06, C07, C08, C16): the property's own statement evaluated
on the real TexSoup() over all strings of <= L atoms of a construct-level alphabet, plus seeded random longer strings.

usage: parse.py <tier> <property id>      (run under /venv/bin/python; VERIF_REPO selects the tree)
"""
import itertools
import os
import random
import re
import sys

from common import Sweep, REPLAY_HEAD, pmap

from TexSoup import TexSoup

ATOMS = ['\\begin{a}', '\\end{a}', '\\item', '\\x', '\\left(', '\\\\', '\\newcommand', '\\begin{verbatim}',
         '\\end{verbatim}', '{', '}', '[', ']', '$', '%', 'a', ' ', '\n', '\\', '*', '\\[', '\\]', '$$', '\\begin{equation}',
         '\\end{equation}', '\\begin', '\\end', '(', '\\%', '\x00', '%c\n', '\\end {a}', '\\begin{ a}', '\\begin[a]', '\r', '\t', "\\'"]
SMALL = ['\\begin{a}', '\\end{a}', '\\x', '{', '}', '[', ']', '$', '%', 'a', ' ', '\n', '\\', '%c\n']
ALLOWED = (EOFError, TypeError, AssertionError)
PROP = None


def parse(s, tol):
    try:
        return TexSoup(s, tolerance=tol), None
    except ALLOWED as e:
        return None, e
    except RecursionError as e:
        return None, e


def shape(node):
    """names, arguments, contents of the tree (C16: identical shape)"""
    e = node.expr if hasattr(node, 'expr') else node
    from TexSoup.data import TexExpr, TexText
    if isinstance(e, TexText) or not isinstance(e, TexExpr):
        return ('T', str(e))
    return (type(e).__name__, e.name, tuple(shape(a) for a in e.args), tuple(shape(c) for c in e._contents))


def conserved(s, out):
    """out == s with only whitespace runs directly before '{' or '[' removed"""
    i = j = 0
    while i < len(s):
        if j < len(out) and s[i] == out[j]:
            i += 1
            j += 1
            continue
        if s[i] in ' \t\n\r':
            k = i
            while k < len(s) and s[k] in ' \t\n\r':
                k += 1
            if k < len(s) and s[k] in '{[':
                i += 1
                continue
        return False
    return j == len(out)


# ---- known findings: recognisers of the input shapes they cover (a violation outside these is reported)
def _name_group_edge_blank(s):
    """some \\begin{...} name group (matched by brace depth, or running to the end of the input when left open) starts
    or ends with whitespace: TexExpr.__init__ strips the name (finding D17)"""
    for m in re.finditer(r'\\begin\s*\{', s):
        d, k = 1, m.end()
        while k < len(s) and d > 0:
            d += s[k] == '{'
            d -= s[k] == '}'
            k += 1
        name = s[m.end():k - 1] if d == 0 else s[m.end():]
        if name != name.strip():
            return True
    return False


def finding_class(s):
    if re.search(r'\\begin\s*\{\s*\[tex\]\s*\}', s):
        return 'D18'
    if re.search(r'\\end\s+[{\[]', s) or re.search(r'\\end\{[^}]*[\\{\[\]$%][^}]*\}', s) or re.search(r'\\end\[', s) \
            or re.search(r'\\end\{\}', s):
        return 'D5'
    if re.search(r'\\begin\s*\[', s):
        return 'D6'
    if re.search(r'\\begin\s*\{\s+[^}]*\}', s) or re.search(r'\\begin\s*\{[^}]*\s+\}', s) or \
            re.search(r'\\begin\s*\{\s', s) or re.search(r'\\begin\s*\{[^}]*\s$', s) or _name_group_edge_blank(s):
        return 'D17'     # (also when the name group is left open: the tolerant parser closes it and strips the name)
    return None


class _Hang(Exception):
    pass


def _alarm(signum, frame):
    raise _Hang()


def check(s):
    """-> list of (class, description) for property PROP on input s; a case that runs longer than 20 s is reported as
    not terminating (C06) instead of blocking the sweep"""
    import signal
    signal.signal(signal.SIGALRM, _alarm)
    signal.alarm(20)
    try:
        return _check(s)
    except _Hang:
        return [('does-not-terminate', 'TexSoup(%r) did not finish within 20 s' % s)] if PROP == 'C06' else []
    finally:
        signal.alarm(0)


def _check(s):
    out = []
    clean = '\x00' not in s and '\x7f' not in s
    if PROP == 'C06':
        import signal
        for tol in (0, 1):
            signal.alarm(20)            # one watchdog per run
            try:
                TexSoup(s, tolerance=tol)
            except ALLOWED:
                pass
            except RecursionError:
                pass
            except _Hang:
                out.append(('does-not-terminate', 'TexSoup(%r, tolerance=%d) did not finish within 20 s' % (s, tol)))
                break
            except BaseException as e:
                out.append(('internal-exception:' + type(e).__name__,
                            'TexSoup(%r, tolerance=%d) raised %s: %s' % (s, tol, type(e).__name__, str(e)[:80])))
        return out
    soup, err = parse(s, 0)
    if PROP == 'C07':
        t, e1 = parse(s, 1)
        if soup is not None:
            if t is None or str(t) != str(soup) or shape(t) != shape(soup):
                out.append(('tolerant-differs', 'strict parse of %r succeeds but the tolerant one gives %r'
                            % (s, None if t is None else str(t))))
        # clause 3: a tolerant result is the input plus inserted closers (whitespace before a group is C08's subject)
        if t is not None and clean and not re.search(r'\s[{\[]', s) and finding_class(s) is None and \
                not only_closers_inserted(s, str(t)):
            out.append(('tolerant-output-not-input-plus-closers', 'TexSoup(%r, tolerance=1) prints %r' % (s, str(t))))
        # clause 2: a well-formed document that lost one closer
        kind = LOST.get(s)
        if kind is not None:
            if t is None:
                out.append(('lost-closer-not-tolerated', 'tolerant parsing of %r (lost %s) raises %s'
                            % (s, kind, type(e1).__name__)))
            if soup is not None and not kind.startswith("']'"):
                out.append(('lost-closer-accepted-by-strict', 'strict parsing accepts %r (lost %s)' % (s, kind)))
        return out
    if soup is None or not clean:
        return out
    o = str(soup)
    fc = finding_class(s)
    if PROP == 'C08':
        if not conserved(s, o):
            out.append((fc or 'characters-not-conserved', 'str(TexSoup(%r)) == %r' % (s, o)))
    elif PROP == 'C01':
        if not re.search(r'\s[{\[]', s) and o != s and wellformed_hint(s):
            out.append((fc or 'round-trip', 'str(TexSoup(%r)) == %r' % (s, o)))
    elif PROP == 'C16':
        if re.search(r'\\(left|right|big|Big|bigg|Bigg)\s', s):
            return out
        s2, e2 = parse(o, 0)
        if s2 is None:
            out.append((fc or 'reparse-fails', 'output %r of %r does not parse again: %s' % (o, s, e2)))
        elif str(s2) != o:
            out.append((fc or 'not-a-fixed-point', 'output %r of %r re-serialises to %r' % (o, s, str(s2))))
        elif shape(s2) != shape(soup):
            out.append((fc or 'shape-drift', 'tree of %r and of its output %r differ' % (s, o)))
    return out


LOST = {}       # broken document -> which closer it lost (filled before the sweep forks)
_END = re.compile(r'\\end\{[A-Za-z*]+\}')
_ENDANY = re.compile(r'\\end\{[^{}\\]*\}')       # an inserted \end{name}; the name may be empty or non-alphabetic
_NAME = re.compile(r'\\(?:begin|end)\{[A-Za-z*]+\}')
C07_DOCS = ['\\newcommand{\\hi}[1]{Hello \\textbf{you}}', '\\begin{doc}\\cmd{r}[o]{q \\emph{x}} tail\\end{doc}',
            '\\begin{doc}\\emph{\\includegraphics{fig}[width=3cm]} and more\\end{doc}', '\\foo[a]{b}c', '{\\bf a} b',
            '\\begin{a}\\begin{b}x\\end{b}y\\end{a}', '\\x{a}[b]{c}{d} e', '\\section{A \\emph{b}}\\label{s} text',
            '\\begin{a}{arg}\\y[o]{\\z{1}{2}}\\end{a}', '\\renewcommand{\\w}[2][d]{\\emph{#1}{#2}}', 'a{b{c}d}e',
            '\\begin{a}\\x{1}\\end{a}\\begin{b}\\y[2]\\end{b}']


def only_closers_inserted(src, out):
    """out is src with some `}`, `]`, `\\end{name}` inserted"""
    import functools
    sys.setrecursionlimit(10000)

    @functools.lru_cache(maxsize=None)
    def go(i, j):
        if j == len(out):
            return i == len(src)
        if i < len(src) and src[i] == out[j] and go(i + 1, j + 1):
            return True
        if out[j] in '}]' and go(i, j + 1):
            return True
        if out.startswith('\\end{', j):       # an inserted \end{name}: the name is whatever the opening's argument printed
            k = out.find('}', j + 5)              # (it may contain a comment with unbalanced braces: try every closing brace)
            while k != -1:
                if go(i, k + 1):
                    return True
                k = out.find('}', k + 1)
        return False
    if len(src) * len(out) > 40000:
        return True
    return go(0, 0)


def lost_closer_cases():
    """every single-closer deletion of the well-formed documents C07_DOCS (closers of \\begin{name} / \\end{name}
    themselves are not argument closers and stay)"""
    for doc in C07_DOCS:
        in_name = {m.end() - 1 for m in _NAME.finditer(doc)}
        for i, ch in enumerate(doc):
            if ch in '}]' and i not in in_name:
                LOST[doc[:i] + doc[i + 1:]] = '%r at %d of %r' % (ch, i, doc)
        for m in _END.finditer(doc):
            LOST[doc[:m.start()] + doc[m.end():]] = '%s of %r' % (m.group(), doc)
    return list(LOST)


def wellformed_hint(s):
    """cheap filter for C01 (the property speaks about well-formed documents): balanced delimiters"""
    depth = 0
    for ch in s:
        if ch == '{':
            depth += 1
        elif ch == '}':
            depth -= 1
            if depth < 0:
                return False
    return depth == 0 and s.count('$') % 2 == 0


def replay_src(s, prop):
    return REPLAY_HEAD + '''sys.path.insert(0, %r)
import parse
parse.PROP = %r
r = parse.check(%r)
print(r or 'no violation'); sys.exit(1 if r else 0)
''' % (os.path.dirname(os.path.abspath(__file__)), prop, s)


def cases(tier, rnd):
    out = []
    L1, L2 = (3, 4) if tier == 'quick' else (4, 5)
    for n in range(0, L1 + 1):
        out += [''.join(t) for t in itertools.product(ATOMS, repeat=n)]
    out += [''.join(t) for t in itertools.product(SMALL, repeat=L2)]
    docs = ['\\begin{a}x\\end{a}', '\\section{A}\n\\textbf{b}', '\\begin{itemize}\n\\item a\n\\item b\n\\end{itemize}',
            '$a+b$ and \\[x\\]', '\\newcommand{\\x}[1]{#1}', '\\begin{verbatim}\n$ { \\end{verbatim}', 'a % c\nb',
            '\\x[o]{r}{s} t', '{\\bf a}', '\\begin{equation}\\left(a\\right)\\end{equation}']
    # whole documents only (their prefixes / deletions would leave the side conditions of C08): commands with a fixed
    # signature followed by further groups, accents before blanks
    out += ['\\textbf{a}{b} c', '\\section{T}{x}[y]', '\\label{l}[x]', '\\def{\\double}{#1#1}{x}', "caf\\'e \\textbf{x}",
            '\\"o $x$ \\\'e }', '\\textbf{a}{b}{c}\\section{s}{t}']
    out += ['\\begin{a}x\\end {a}y', '\\begin{\\x}x\\end{\\x}', '\\begin[x]{a}b\\end{x}', '\\begin{ a}x\\end{a}',
            '\\begin{a }x\\end{a}', '\\begin{}\\end{}', '\\begin{[tex]}x\\end{[tex]}y']
    # argument lists: every sequence of <= 4 groups (repeats included) after a command and after \begin{a}
    if PROP == 'C16':
        # blanks around the name of an environment whose name selects a reader (verbatim-like, math, list): the name is
        # stripped on output, so both parses must classify the environment the same way (seeded change r7-C16-1)
        for nm in ('verbatim', 'lstlisting', 'equation', 'align', 'itemize', 'a'):
            for l, r in ((' ', ' '), (' ', ''), ('', ' '), ('\t', '')):
                for body in ('\\foo {c}', '$ {x}', 'a_{b} [c]', '\\item a {b}', '\\x{a} [b]'):
                    out.append('\\begin{%s%s%s}%s\\end{%s}' % (l, nm, r, body, nm))
    groups = ['{a}', '[a]', '{b}', '[b]', ' {a}', '\n[a]']
    for n in range(1, 5):
        for t in itertools.product(groups, repeat=n):
            out.append('\\x' + ''.join(t) + ' y')
            out.append('\\begin{a}' + ''.join(t) + 'z\\end{a}')
    for d in docs:
        out.append(d)
        for k in range(len(d)):
            out.append(d[:k])                    # every prefix
            out.append(d[:k] + d[k + 1:])        # every single-character deletion
    for _ in range(2000 if tier == 'quick' else 40000):
        out.append(''.join(rnd.choice(ATOMS) for _ in range(rnd.randrange(5, 14))))
    if PROP == 'C07':
        out += C07_DOCS + lost_closer_cases()
    return out


def main(tier, prop):
    global PROP
    PROP = prop
    rnd = random.Random(int(os.environ.get('VERIF_SEED', '0') or 0))
    sw = Sweep('%s parse sweep' % prop, {'atoms': ATOMS, 'max_atoms': 3 if tier == 'quick' else 4,
                                         'small_alphabet_len': 4 if tier == 'quick' else 5,
                                         'random_long': 2000 if tier == 'quick' else 40000})
    cs = cases(tier, rnd)
    for s, r in zip(cs, pmap(check, cs)):
        sw.case(s, len(s) > 1)
        for cls, desc in r:
            sw.violation(cls, desc, replay_src(s, prop), s)
    sw.emit()


if __name__ == '__main__':
    main(sys.argv[1] if len(sys.argv) > 1 else 'quick', sys.argv[2] if len(sys.argv) > 2 else 'C06')
