"""C06 bounded stand-in, second part: "it never hangs" for nesting depth up to 40.

The deductive part proves termination (every loop and recursion has a decreasing measure); that says nothing about the
*number* of steps.  This sweep counts reader calls (deterministic, no wall clock) on families of nested inputs of depth
n = 4, 6, 8, 10 and extrapolates: a family whose call count more than doubles from depth 8 to depth 10 grows
exponentially with the depth and cannot be parsed at depth 40 in any reasonable time.

usage: c06_growth.py <tier>
"""
import itertools
import os
import sys

from common import Sweep, REPLAY_HEAD

import TexSoup.reader as reader
from TexSoup import TexSoup

CALLS = [0]
_orig_command, _orig_expr = reader.read_command, reader.read_expr


def _count_command(*a, **k):
    CALLS[0] += 1
    return _orig_command(*a, **k)


def _count_expr(*a, **k):
    CALLS[0] += 1
    return _orig_expr(*a, **k)


reader.read_command = _count_command
reader.read_expr = _count_expr

OPEN = ['\\end{', '{', '[', '\\x{', '\\x[', '\\item ', '\\begin{a}', '$', '\\[', '\\(', '\\textbf{', '\\newcommand{', '\\x{\\y{', '\\section{']
CLOSE = {'\\end{': '}', '{': '}', '[': ']', '\\x{': '}', '\\x[': ']', '\\item ': '', '\\begin{a}': '\\end{a}', '$': '$', '\\[': '\\]', '\\(': '\\)',
         '\\textbf{': '}', '\\newcommand{': '}', '\\x{\\y{': '}}', '\\section{': '}'}


def calls(unit, n, tol):
    s = ''.join(unit) * n + ''.join(CLOSE[u] for u in reversed(unit)) * n
    CALLS[0] = 0
    try:
        TexSoup(s, tolerance=tol)
    except Exception:
        pass
    return CALLS[0]


def growth(unit, tol):
    c = [calls(unit, n, tol) for n in (4, 6, 8, 10)]
    return c


def finding_class(unit):
    """known finding D23: the look-ahead for \\end / \\item parses the whole next command (arguments included) and rolls
    back, so a command with an argument directly inside an environment or an \\item is parsed twice per level"""
    u = ''.join(unit)
    if '\\end{' in u and '\\begin{a}' in u:
        # known finding D25 (tolerant mode): an environment that meets an \end whose name group does not match leaves it
        # for the enclosing reader, which parses that group a second time
        return 'D25'
    if ('\\begin{a}' in u or '\\item ' in u) and any(x in u for x in ('\\x{', '\\x[', '\\textbf{', '\\section{', '\\newcommand{',
                                                                          '\\x{\\y{')):
        return 'D23'
    return None


def replay_src(unit, tol):
    return REPLAY_HEAD + '''sys.path.insert(0, %r)
import c06_growth
c = c06_growth.growth(%r, %r)
print(c); sys.exit(1 if c[3] > 2 * max(c[2], 1) + 16 else 0)
''' % (os.path.dirname(os.path.abspath(__file__)), tuple(unit), tol)


def main(tier):
    k = 2 if tier == 'quick' else 3
    units = [u for r in range(1, k + 1) for u in itertools.product(OPEN, repeat=r)]
    sw = Sweep('C06 step growth with nesting depth', {'opening_atoms': OPEN, 'atoms_per_level': k, 'depths': [4, 6, 8, 10],
                                                       'criterion': 'reader calls at depth 10 <= 2 * calls at depth 8 + 16'})
    for unit in units:
        for tol in (0, 1):
            c = growth(unit, tol)
            sw.case('%s tol=%d' % (''.join(unit), tol), True)
            if c[3] > 2 * max(c[2], 1) + 16:
                sw.violation(finding_class(unit) or 'exponential-steps',
                             'reader calls for %r nested 4/6/8/10 deep (tolerance=%d): %r - growing exponentially with the '
                             'depth; depth 40 does not finish' % (''.join(unit), tol, c), replay_src(unit, tol), ''.join(unit))
    sw.emit()


if __name__ == '__main__':
    main(sys.argv[1] if len(sys.argv) > 1 else 'quick')
