"""C13 bounded stand-in: recorded positions are true offsets; line/column map; regex match offsets; Token.strip*."""
import itertools
import os
import random
import re
import sys

from common import Sweep, REPLAY_HEAD, pmap

from TexSoup import TexSoup
from TexSoup.data import TexExpr, TexText, TexNode
from TexSoup.utils import CharToLineOffset, Token

ATOMS = ['\\x', '{', '}', '[', ']', '$', '%c\n', 'ab', ' ', '\n', '\\begin{a}', '\\end{a}', '\\item', '\\[', '\\]', '\\\\',
         '\\begin{verbatim}', '\\end{verbatim}']


def walk(expr):
    yield expr
    if isinstance(expr, TexText):
        return
    for a in expr.args:
        yield from walk(a)
    for c in expr._contents:
        if isinstance(c, TexExpr):
            yield from walk(c)
        else:
            yield c


def check_doc(s):
    out = []
    try:
        soup = TexSoup(s)
    except Exception:
        return out
    for e in walk(soup.expr):
        if e is soup.expr:
            continue
        if isinstance(e, TexText):
            tok = e._text
            pos = getattr(tok, 'position', None)
            txt = str(tok)
        elif isinstance(e, TexExpr):
            pos, txt = e.position, str(e)
        else:
            pos, txt = getattr(e, 'position', None), str(e)
        if pos is None or pos == -1 or not txt:
            continue
        if not (0 <= pos < len(s)) or s[pos] != txt[0]:
            out.append(('position-not-an-offset', 'in %r the node %r records position %r' % (s, txt, pos)))
    for node in soup.text:
        for m in soup.search_regex('[a-z]+') if False else []:
            pass
    try:
        for tok in TexNode(soup.expr, src=s).search_regex('[a-z]+|\\$'):
            if s[tok.position:tok.position + len(tok)] != str(tok):
                out.append(('regex-offset', 'search_regex in %r reports %r at %r' % (s, str(tok), tok.position)))
    except Exception as e:
        out.append(('regex-raises', 'search_regex on %r raised %s' % (s, type(e).__name__)))
    return out


def check_lines(s):
    out = []
    clo = CharToLineOffset(s)
    for p in range(len(s)):
        line = s.count('\n', 0, p)
        col = p - (s.rfind('\n', 0, p) + 1)
        if clo(p) != (line, col):
            out.append(('line-column', 'CharToLineOffset(%r)(%d) == %r, the character stands at %r' % (s, p, clo(p), (line, col))))
            break
    return out


def check_strip(s):
    out = []
    for base in (0, 5):
        t = Token(s, base)
        for name in ('strip', 'lstrip', 'rstrip'):
            r = getattr(t, name)()
            txt = str(r)
            if txt and s[r.position - base:r.position - base + len(txt)] != txt:
                out.append(('strip-offset', 'Token(%r, %d).%s() == %r at position %r' % (s, base, name, txt, r.position)))
    return out


def check(item):
    kind, s = item
    return {'doc': check_doc, 'lines': check_lines, 'strip': check_strip}[kind](s)


def replay_src(item):
    return REPLAY_HEAD + '''sys.path.insert(0, %r)
import c13
r = c13.check(%r)
print(r or 'no violation'); sys.exit(1 if r else 0)
''' % (os.path.dirname(os.path.abspath(__file__)), item)


def main(tier):
    rnd = random.Random(int(os.environ.get('VERIF_SEED', '0') or 0))
    L = 3 if tier == 'quick' else 4
    cases = [('doc', ''.join(t)) for n in range(1, L + 1) for t in itertools.product(ATOMS, repeat=n)]
    cases += [('doc', ''.join(rnd.choice(ATOMS) for _ in range(rnd.randrange(5, 16)))) for _ in range(500 if tier == 'quick' else 20000)]
    LL = 6 if tier == 'quick' else 8
    cases += [('lines', ''.join(t)) for n in range(0, LL + 1) for t in itertools.product('a\n', repeat=n)]
    LS = 5 if tier == 'quick' else 7
    cases += [('strip', ''.join(t)) for n in range(0, LS + 1) for t in itertools.product(' \nab', repeat=n)]
    sw = Sweep('C13 positions sweep', {'doc_atoms': ATOMS, 'doc_max_atoms': L, 'lines_max_len': LL, 'strip_max_len': LS})
    for it, r in zip(cases, pmap(check, cases)):
        sw.case('%s:%s' % it, len(it[1]) > 0)
        for cls, desc in r:
            sw.violation(cls, desc, replay_src(it), it[1])
    sw.emit()


if __name__ == '__main__':
    main(sys.argv[1] if len(sys.argv) > 1 else 'quick')
