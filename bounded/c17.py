"""C17 bounded stand-in: input forms/chunkings, hash seeds in fresh interpreters, isolation of parses."""
import hashlib
import io
import itertools
import json
import os
import random
import subprocess
import sys

from common import Sweep, REPLAY_HEAD, REPO

import gen
from TexSoup import TexSoup

SIZES = ['left', 'right', 'big', 'Big', 'bigg', 'Bigg']
DELIMS = ['(', ')', '<', '>', '[', ']', '{', '}', '\\{', '\\}', '.', '|', '.|', '\\langle', '\\rangle', '\\lfloor', '\\rceil',
          '\\lbrack']


def shape(e):
    from TexSoup.data import TexExpr, TexText
    if isinstance(e, TexText) or not isinstance(e, TexExpr):
        return ('T', str(e))
    return (type(e).__name__, e.name, tuple(shape(a) for a in e.args), tuple(shape(c) for c in e._contents))


def digest(s, **kw):
    try:
        soup = TexSoup(s, **kw)
        return (str(soup), repr(shape(soup.expr)))
    except Exception as e:
        return ('EXC', type(e).__name__)


def corpus(rnd, n):
    out = ['$\\%s%s x$' % (a, b) for a in SIZES for b in DELIMS]
    out += [gen.document(rnd.randrange(10 ** 9), 3)[0] for _ in range(n)]
    out += ['\\begin{a}x\\end{a}', 'a\\\\b', '\\left.|x\\right.', '{\\x[o]{r}}%c\n$m$']
    # brace-less mandatory arguments (coerced from strings by the argument list), repeated texts
    out += ['a\r\nb', '\\x\r\n{a}\r\n', 'l1\r\n\r\nl2\r\n', '\\begin{a}\r\nx\r\n\\end{a}\r\n']        # CRLF sources (chunk ends)
    out += ['\\section x and \\label k done', '\\textbf a\\textbf a', '\\section x\\section x', '\\label k \\ref{k}\\label k']
    return out


def walk(e):
    from TexSoup.data import TexExpr
    yield e
    if isinstance(e, TexExpr):
        for a in list(e.args):
            yield from walk(a)
        for c in e._contents:
            yield from walk(c)


def forms(s, rnd, allsplits):
    cuts = range(len(s) + 1) if allsplits else sorted({rnd.randrange(len(s) + 1) for _ in range(4)})
    for k in cuts:
        yield 'list@%d' % k, [s[:k], s[k:]]
        yield 'tuple@%d' % k, (s[:k], s[k:])
    yield 'lines', s.splitlines(True)
    yield 'generator', (c for c in s)
    yield 'file', io.StringIO(s)
    yield 'chars', list(s)


def seed_digest(texts):
    h = hashlib.sha256()
    for s in texts:
        h.update(repr(digest(s)).encode())
    return h.hexdigest()


def main(tier):
    if len(sys.argv) > 2 and sys.argv[2] == '--seed-worker':
        texts = json.loads(sys.stdin.read())
        print('@@DIGEST@@' + json.dumps([repr(digest(s)) for s in texts]))
        return
    rnd = random.Random(int(os.environ.get('VERIF_SEED', '0') or 0))
    sw = Sweep('C17 forms/seeds/isolation', {'documents': 150 if tier == 'quick' else 1500, 'hash_seeds': 8 if tier != 'quick' else 4,
                                             'sizing_matrix': '%d x %d' % (len(SIZES), len(DELIMS))})
    texts = corpus(rnd, 150 if tier == 'quick' else 1500)
    # 1. input forms
    for s in texts:
        want = digest(s)
        for name, form in forms(s, rnd, len(s) <= 12):
            sw.case('%s:%s' % (name, s[:40]), True)
            got = digest(form)
            if got != want:
                sw.violation('input-form', 'TexSoup(%r) given as %s differs from the single string' % (s, name),
                             REPLAY_HEAD + 'sys.path.insert(0, %r)\nimport c17, io\ns=%r\nw=c17.digest(s)\nbad=[n for n,f in c17.forms(s, __import__("random").Random(0), True) if c17.digest(f)!=w]\nprint(bad or "no violation"); sys.exit(1 if bad else 0)\n' % (os.path.dirname(os.path.abspath(__file__)), s), s)
                break
    # 2. hash seeds in fresh interpreters
    sub = texts[:len(SIZES) * len(DELIMS)] + texts[-60:]
    outs = {}
    for seed in range(4 if tier == 'quick' else 8):
        env = dict(os.environ, PYTHONHASHSEED=str(seed))
        p = subprocess.run([sys.executable, os.path.abspath(__file__), tier, '--seed-worker'], input=json.dumps(sub),
                           capture_output=True, text=True, env=env, cwd=os.path.dirname(os.path.abspath(__file__)))
        line = [l for l in p.stdout.splitlines() if l.startswith('@@DIGEST@@')]
        outs[seed] = json.loads(line[0][10:]) if line else None
        sw.case('hashseed %d' % seed, True)
    base = outs[0]
    for seed, o in outs.items():
        if o is None or base is None:
            sw.violation('seed-worker-failed', 'worker for PYTHONHASHSEED=%d failed' % seed, REPLAY_HEAD + 'sys.exit(1)\n')
            continue
        for s, a, b in zip(sub, base, o):
            if a != b:
                sw.violation('hash-seed', 'TexSoup(%r) differs between PYTHONHASHSEED=0 and %d' % (s, seed),
                             REPLAY_HEAD + 'import subprocess\nr=set()\nfor sd in range(8):\n    r.add(subprocess.run([sys.executable,"-c","import sys; sys.path.insert(0,%%r); from TexSoup import TexSoup; print(repr(str(TexSoup(%%r))), [str(x) for x in TexSoup(%%r).expr.all])" %% (os.environ.get("VERIF_REPO","/repo"), %r, %r)],capture_output=True,text=True,env=dict(os.environ,PYTHONHASHSEED=str(sd))).stdout)\nprint(r); sys.exit(1 if len(r)>1 else 0)\n' % (s, s), s)
                break
    # 3. isolation: edits to an earlier parse do not influence a later one; two parses share no mutable state
    for s in texts[-80:]:
        sw.case('isolation:' + s[:40], True)
        a = TexSoup(s) if digest(s)[0] != 'EXC' else None
        if a is None:
            continue
        before = digest(s)
        try:
            for n in list(a.find_all(['foo', 'bar', 'emph', 'ref', 'cite']))[:2]:
                n.name = 'zzz'
                n.args.clear() if len(n.args) else None
            a.expr._contents.clear()
        except Exception:
            pass
        try:        # deep edit of the earlier parse: empty every argument group and content list
            from TexSoup.data import TexExpr as _TE
            for e in list(walk(a.expr)):
                if isinstance(e, _TE):
                    e._contents.clear()
        except Exception:
            pass
        b1, b2 = TexSoup(s), TexSoup(s)
        from TexSoup.data import TexExpr as _TE
        shared = {id(e) for e in walk(b1.expr) if isinstance(e, _TE)} & {id(e) for e in walk(b2.expr) if isinstance(e, _TE)}
        if shared:
            sw.violation('parses-share-objects', 'two parses of %r share %d expression objects' % (s, len(shared)),
                         REPLAY_HEAD + 'sys.path.insert(0, %r)\nimport c17\nfrom TexSoup import TexSoup\nfrom TexSoup.data import TexExpr\ns=%r\na,b=TexSoup(s),TexSoup(s)\nsh={id(e) for e in c17.walk(a.expr) if isinstance(e,TexExpr)}&{id(e) for e in c17.walk(b.expr) if isinstance(e,TexExpr)}\nprint(len(sh)); sys.exit(1 if sh else 0)\n' % (os.path.dirname(os.path.abspath(__file__)), s), s)
        if (str(b1), repr(shape(b1.expr))) != before:
            sw.violation('parse-influenced-by-earlier-edit', 'parsing %r after editing an earlier parse of it gives a different result' % s,
                         REPLAY_HEAD + 'sys.exit(1)\n', s)
        b1.expr._contents.clear()
        for arg in list(b1.expr.args):
            b1.expr.args.remove(arg)
        if (str(b2), repr(shape(b2.expr))) != before:
            sw.violation('parses-share-state', 'two parses of %r share mutable state' % s, REPLAY_HEAD + 'sys.exit(1)\n', s)
    sw.emit()


if __name__ == '__main__':
    main(sys.argv[1] if len(sys.argv) > 1 else 'quick')
