"""C18 bounded stand-in: breadth-first exploration of TexArgs operation sequences against a Python list of groups."""
import itertools
import os
import random
import sys

from common import Sweep, REPLAY_HEAD

from TexSoup.data import TexArgs, BraceGroup, BracketGroup, TexCmd, TexNamedEnv

POOL = ['{a}', '[b]', '{a}', '{c d}', '[]']
BAD = ['{x', 'y]', 'z', '[q}']


def ops_for(n):
    out = [('append', g) for g in POOL[:3]] + [('append_obj', 0), ('extend', ('{e}', '[f]')), ('reverse',), ('clear',),
                                                  ('slice', 0, 2), ('slice', 1, None), ('str',), ('append', BAD[0]),
                                                  ('insert', 0, BAD[1]), ('append', ' '), ('pop_default',)]
    for i in (-n - 2, -n - 1, -n, -2, -1, 0, 1, n - 1, n, n + 1, n + 2, n + 3):
        out.append(('insert', i, POOL[1]))
        out.append(('insert', i, '{new}'))
    for i in (-1, 0, 1, n):
        out.append(('pop', i))
        out.append(('getitem', i))
    for g in POOL[:3]:
        out.append(('remove', g))
    return out


def norm(x):
    return str(x)


def model_apply(m, op):
    k = op[0]
    try:
        if k == 'append':
            g = op[1]
            if g.isspace():
                return None
            if not ((g.startswith('{') and g.endswith('}')) or (g.startswith('[') and g.endswith(']'))):
                return 'TypeError'
            m.append(g)
        elif k == 'append_obj':
            m.append('{obj}')
        elif k == 'extend':
            m.extend(op[1])
        elif k == 'insert':
            g = op[2]
            if not ((g.startswith('{') and g.endswith('}')) or (g.startswith('[') and g.endswith(']'))):
                return 'TypeError'
            m.insert(op[1], g)
        elif k == 'remove':
            m.remove(op[1])
        elif k == 'pop':
            return m.pop(op[1])
        elif k == 'pop_default':
            return m.pop()
        elif k == 'reverse':
            m.reverse()
        elif k == 'clear':
            m.clear()
        elif k == 'getitem':
            return m[op[1]]
        elif k == 'slice':
            return ''.join(m[op[1]:op[2]])
        elif k == 'str':
            return ''.join(m)
    except (IndexError, ValueError) as e:
        return type(e).__name__
    return None


def real_apply(a, op):
    k = op[0]
    try:
        if k == 'append':
            a.append(op[1])
        elif k == 'append_obj':
            a.append(BraceGroup('obj'))
        elif k == 'extend':
            a.extend(list(op[1]))
        elif k == 'insert':
            a.insert(op[1], op[2])
        elif k == 'remove':
            a.remove(op[1])
        elif k == 'pop':
            return norm(a.pop(op[1]))
        elif k == 'pop_default':
            return norm(a.pop())
        elif k == 'reverse':
            a.reverse()
        elif k == 'clear':
            a.clear()
        elif k == 'getitem':
            return norm(a[op[1]])
        elif k == 'slice':
            r = a[op[1]:op[2]]
            if not isinstance(r, TexArgs):
                return 'NOT-TexArgs'
            return str(r)
        elif k == 'str':
            return str(a)
    except (IndexError, ValueError, TypeError) as e:
        return type(e).__name__
    return None


def run(hist):
    a, m = TexArgs(), []
    for op in hist:
        want = model_apply(m, op)
        before = [str(x) for x in a]
        try:
            got = real_apply(a, op)
        except Exception as e:
            got = 'EXC:' + type(e).__name__
        now = [str(x) for x in a]
        if want == 'TypeError' and now != before:
            return op, 'rejected string changed the list: %r -> %r' % (before, now)
        if got != want or now != m or str(a) != ''.join(m):
            return op, 'real %r with list %r, model %r with list %r' % (got, now, want, m)
        owner = TexCmd('x', args=a)
        if str(owner) != '\\x' + ''.join(m):
            return op, 'the owning command prints %r' % str(owner)
        # every kind of owner prints its argument list right after its opening (named environment, group, math region)
        from TexSoup.data import TexMathModeEnv, TexDisplayMathEnv
        owners = ((TexNamedEnv('e', ['b']), '\\begin{e}', 'b\\end{e}'), (BraceGroup('b'), '{', 'b}'),
                  (BracketGroup('b'), '[', 'b]'), (TexMathModeEnv(['b']), '$', 'b$'), (TexDisplayMathEnv(['b']), '\\[', 'b\\]'))
        for own, opening, closing in owners:
            own.args = a
            if str(own) != opening + ''.join(m) + closing:
                return op, 'the owning %s prints %r, its argument list is %r' % (type(own).__name__, str(own), ''.join(m))
    return None


def replay_src(hist):
    return REPLAY_HEAD + '''sys.path.insert(0, %r)
import c18
r = c18.run(%r)
print(r or 'no violation'); sys.exit(1 if r else 0)
''' % (os.path.dirname(os.path.abspath(__file__)), list(hist))


def main(tier):
    depth = 3 if tier == 'quick' else 4
    sw = Sweep('C18 TexArgs-vs-list BFS', {'depth': depth, 'pool': POOL, 'random_long': 2000 if tier == 'quick' else 30000})
    frontier = [()]
    for d in range(depth):
        nxt = []
        for h in frontier:
            m = []
            for op in h:
                model_apply(m, op)
            for op in ops_for(len(m)):
                hist = h + (op,)
                sw.case(hist, True)
                r = run(hist)
                if r:
                    sw.violation('texargs-model-mismatch:' + op[0], 'after %r: %s' % (hist, r[1]), replay_src(hist))
                elif op[0] in ('append', 'append_obj', 'insert', 'extend', 'remove', 'pop', 'reverse') and d + 1 < depth:
                    nxt.append(hist)
        seen = {}
        for h in nxt:
            m = []
            for op in h:
                model_apply(m, op)
            seen.setdefault((tuple(m), h[-1][0]), h)
        frontier = list(seen.values())[:250 if tier == 'quick' else 2000]
    rnd = random.Random(int(os.environ.get('VERIF_SEED', '0') or 0))
    for _ in range(2000 if tier == 'quick' else 30000):
        hist, m = [], []
        for _ in range(rnd.randrange(4, 12)):
            op = rnd.choice(ops_for(len(m)))
            hist.append(op)
            model_apply(m, op)
        sw.case(tuple(hist), True)
        r = run(hist)
        if r:
            sw.violation('texargs-model-mismatch:' + r[0][0], 'after %r: %s' % (hist, r[1]), replay_src(hist))
    sw.emit()


if __name__ == '__main__':
    main(sys.argv[1] if len(sys.argv) > 1 else 'quick')
