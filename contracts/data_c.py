"""Contracts for TexSoup/data.py: constructors, serialisers (__str__ == ser), TexArgs, mutators, views, search."""
import ast

import z3
from z3 import (Function, IntSort, BoolSort, Length, If, And, Or, Not, Implies, Concat, Unit, Empty, IntVal, BoolVal,
                SubSeq, simplify, is_true, is_false, PrefixOf, SuffixOf)

from pyvc.contracts import Contract, ClassView, P, A, Raises, Loop
from pyvc.sorts import Str, Tok, TokSeq, E, ESeq, NONE_CAT, pystr
from pyvc.values import (Val, VI, VB, VS, VNone, VTok, VOpt, VTuple, VSeq, VList, VE, lift, strz, Unsupported, fresh)
from pyvc import ops
from pyvc.ops import ser, str_strip
from .base import REG
from .tree import (AA, SL, TL, TAg, BARE, NW, tight, gapped, isbare, kind, body, eargs, ename, epos, etok, kind_of, KINDS,
                   sl_facts, snoc_facts, nw_lit, as_eseq, publish, PUBLISH_HOOKS)

GROUPS = ['data.BraceGroup', 'data.BracketGroup']
MATHS = ['data.TexMathModeEnv', 'data.TexDisplayMathModeEnv', 'data.TexMathEnv', 'data.TexDisplayMathEnv']
ENVS = GROUPS + MATHS + ['data.TexNamedEnv']

# constructors of the subclasses are executed by inlining their real bodies down to TexExpr.__init__
REG.inline.add('data.TexExpr._as_content')
for _q in ('data.TexEnv.__init__', 'data.TexNamedEnv.__init__', 'data.TexUnNamedEnv.__init__', 'data.TexGroup.__init__',
           'data.TexEnv.begin', 'data.TexEnv.end', 'data.TexNamedEnv.begin', 'data.TexNamedEnv.end',
           'data.TexExpr._supports_contents', 'data.TexExpr._assert_supports_contents',
           'data.TexCmd._supports_contents', 'data.TexCmd._assert_supports_contents'):
    REG.inline.add(_q)


@REG.specfun('strip')
def _strip(ctx, s):
    return VS(ops.strip_z(strz(s)))


@REG.specfun('isarg')
def _isarg(ctx, e):
    """isinstance(e, (TexGroup, TexCmd))"""
    return VB(Or(*[kind(e.z) == kind_of(c) for c in GROUPS + ['data.TexCmd']]))


# ---------------------------------------------------------------------- TexExpr.__init__
for _case, _argty, _items in (('args-TexArgs', 'TexArgs', 'args.items'), ('args-list', 'elist', 'eseq(args)')):
    REG.add(Contract(
        'data.TexExpr.__init__', case=_case,
        types={'self': 'UExpr', 'name': 'strlike', 'contents': 'elist', 'args': _argty, 'preserve_whitespace': 'bool',
               'position': 'int'},
        modifies=['self.name', 'self.args', 'self.contents', 'self.position'],
        requires=[A('arguments-are-groups-or-commands', 'allargs(%s)' % _items)],
        ensures=[P(['C01', 'C08', 'C14'], 'name', 'self.name == strip(name)'),
                 P(['C01', 'C08'], 'contents', 'self.contents == eseq(contents)'),
                 P(['C01', 'C08'], 'args', 'self.args.items == %s' % _items),
                 P(['C13'], 'position', 'self.position == position')],
        loops={0: Loop(invariant=[], modifies=[])}))


def parent_store_hook(eng, what, payload, st):
    """`expr.parent = ...` on a published expression: back pointers of TexExpr are not part of the abstract view"""
    if what == 'setattr':
        recv, attr, v, node = payload
        if recv.ty == 'E' and attr == 'parent':
            return [('fall', st)]
        if recv.ty == 'obj' and attr in ('parent', 'preserve_whitespace', '_begin', '_end') and \
                eng._view_or_none(recv) is REG.views.get('UExpr'):
            st.heap[recv.a['ref']][attr] = v
            return [('fall', st)]
    return None


REG.attr_hooks.insert(0, parent_store_hook)

# ---------------------------------------------------------------------- TexArgs (list view `items`)
# NOTE: these contracts are *assumed* where the readers use them until the C18 block verifies the bodies.
REG.add(Contract('data.TexArgs.__init__', case='list', types={'self': 'TexArgs', 'args': 'elist'},
                 modifies=['self.items'],
                 requires=[A('groups-or-commands', 'allargs(eseq(args))')],
                 ensures=[P(['C18'], 'items', 'self.items == eseq(args)')]))
REG.add(Contract('data.TexArgs.__init__', case='copy', types={'self': 'TexArgs', 'args': 'TexArgs'},
                 modifies=['self.items'],
                 requires=[A('groups-or-commands', 'allargs(args.items)')],
                 ensures=[P(['C18'], 'items', 'self.items == args.items')]))


def args_snoc(eng, st, binding, pre):
    obj = binding['self']
    old = pre.heap[obj.a['ref']]['items'].z
    new = st.heap[obj.a['ref']]['items'].z
    x = binding.get('$appended')
    if x is not None:
        snoc_facts(st, old, x, new)


REG.add(Contract('data.TexArgs.append', case='expr', types={'self': 'TexArgs', 'arg': 'E'}, modifies=['self.items'],
                 requires=[A('group-or-command', 'isarg(arg)')],
                 ensures=[P(['C18'], 'appended', 'self.items == concat(old(self.items), unit(arg))')],
                 hooks=[lambda eng, st, b, pre: snoc_facts(st, pre.heap[b['self'].a['ref']]['items'].z, b['arg'].z,
                                                           st.heap[b['self'].a['ref']]['items'].z)]))


def _append_str_hook(eng, st, b, pre):
    g = fresh('g_parsed', E)
    old = pre.heap[b['self'].a['ref']]['items'].z
    new = st.heap[b['self'].a['ref']]['items'].z
    st.assume(new == Concat(old, Unit(g)))
    st.assume(ser(g) == strz(b['arg']))          # BraceGroup(s[1:-1]) prints as s
    st.assume(kind(g) == kind_of('data.BraceGroup'))
    st.assume(isbare(g))
    snoc_facts(st, old, g, new)


REG.add(Contract('data.TexArgs.append', case='brace-string', types={'self': 'TexArgs', 'arg': 'str'},
                 modifies=['self.items'],
                 requires=[A('brace-delimited', 'arg.startswith("{") and arg.endswith("}") and len(arg) >= 2'),
                           A('not-blank', 'not arg.isspace()')],
                 ensures=[P(['C18'], 'one-more', 'len(self.items) == len(old(self.items)) + 1')],
                 hooks=[_append_str_hook]))
REG.add(Contract('data.TexArgs.__getitem__', case='int', types={'self': 'TexArgs', 'key': 'int'}, result='E',
                 raises={'IndexError': Raises('key < -len(self.items) or key >= len(self.items)')},
                 ensures=[P(['C18'], 'item', 'result == self.items[key if key >= 0 else len(self.items) + key]')]))
REG.add(Contract('data.TexArgs.__getitem__', case='slice', types={'self': 'TexArgs', 'key': 'slice[int?,int?]'},
                 result='TexArgs',
                 ensures=[P(['C18', 'C14'], 'items', 'result.items == self.items[key.start:key.stop]')]))
REG.add(Contract('data.TexArgs.__str__', types={'self': 'TexArgs'}, result='str',
                 ensures=[P(['C18', 'C01', 'C08'], 'concatenation', 'result == SL(self.items)')]))


def list_builtin_hook(eng, what, payload, st):
    """list.__init__ of the TexArgs base class: the abstract view has no other list state"""
    if what == 'builtinmethod':
        base, meth, bound, args, kwargs = payload
        if base == 'builtins.list' and meth == '__init__' and not args:
            if bound.ty == 'obj' and 'items' in st.heap[bound.a['ref']]:
                st.heap[bound.a['ref']]['items'] = VSeq(Empty(ESeq), 'E')
            return [('val', st, VNone)]
    return None


REG.attr_hooks.append(list_builtin_hook)

# ---------------------------------------------------------------------- serialisers: __str__ == ser on the current fields
_SA = 'SL(self.args.items)'
_SC = 'SL(self.contents)'
REG.add(Contract('data.TexCmd.__str__', types={'self': 'UExpr:data.TexCmd'}, result='str',
                 ensures=[P(['C01', 'C08', 'C14'], 'ser', 'result == concat("\\\\", self.name, %s, %s)' % (_SA, _SC))]))
for _cls in GROUPS + MATHS:
    REG.add(Contract('data.TexEnv.__str__', case=_cls.split('.')[1], types={'self': 'UExpr:' + _cls}, result='str',
                     requires=[A('unnamed-env-name', 'self.name == clsattr(self, "name")')],
                     ensures=[P(['C01', 'C08', 'C12'], 'ser',
                                'result == concat(clsattr(self, "begin"), %s, %s, clsattr(self, "end"))' % (_SA, _SC))]))
REG.add(Contract('data.TexEnv.__str__', case='TexNamedEnv', types={'self': 'UExpr:data.TexNamedEnv'}, result='str',
                 ensures=[P(['C01', 'C08', 'C14'], 'ser',
                            'self.name != "[tex]" ==> '
                            'result == concat("\\\\begin{", self.name, "}", %s, %s, "\\\\end{", self.name, "}")'
                            % (_SA, _SC)),
                          # an environment that happens to be called "[tex]" prints like the root (finding D18)
                          A('root-name-clash', 'self.name == "[tex]" ==> result == %s' % _SC)]))


@REG.specfun('clsattr')
def _clsattr(ctx, obj, name):
    from pyvc.exprs import _const_str
    return lift(ctx.engine.repo.class_attr(obj.a['cls'], _const_str(simplify(name.z))))


def map_hook(eng, what, payload, st):
    """map(str, xs) / [str(e) for e in xs] joined with '' is the SL fold"""
    if what == 'builtin':
        name, args, kwargs, node = payload
        if name == 'map' and len(args) == 2 and args[0].ty == 'builtin' and args[0].a['name'] == 'str':
            return [('val', st, Val('comp', None, elt=ast.parse('str(_x)', mode='eval').body, var='_x', iter=args[1],
                                    islist=False))]
    if what == 'join':
        recv, arg, node = payload
        if arg.ty == 'comp' and ast.unparse(arg.a['elt']) == 'str(%s)' % arg.a['var']:
            it = arg.a['iter']
            if it.ty == 'obj' and 'items' in st.heap.get(it.a['ref'], {}):
                it = st.heap[it.a['ref']]['items']          # iterating a TexArgs yields its list elements
            try:
                xs = as_eseq(it)
            except Unsupported:
                return None
            eng.oblige('%s@L%s#join-glue-is-empty' % (eng.cur.key, getattr(node, 'lineno', '?')), st,
                       Length(strz(recv)) == 0, 'A')
            sl_facts(st, xs.z)
            return [('val', st, VS(SL(xs.z)))]
    return None


REG.attr_hooks.append(map_hook)


# ---------------------------------------------------------------------- TexText: a leaf wrapping one token
def ctor_TexText(eng, st, args, kwargs, node):
    t = args[0]
    e = fresh('e_text', E)
    st.fact(ser(e) == strz(t))                       # TexText.__str__: str(self._text)
    st.fact(kind(e) == kind_of('data.TexText'))
    st.fact(tight(e))
    st.fact(Not(isbare(e)))
    if t.ty == 'tok':
        st.fact(etok(e) == t.z)
        st.fact(epos(e) == (kwargs['position'].z if 'position' in kwargs else IntVal(-1)))
    return [('val', st, VE(e))]


REG.ctors['data.TexText'] = ctor_TexText

# ---------------------------------------------------------------------- TexExpr.append (used by the environment readers)
for _cls in ['data.TexCmd'] + ENVS + ['data.TexEnv', 'data.TexExpr']:
    REG.add(Contract('data.TexExpr.append', case=_cls.split('.')[1],
                     types={'self': 'UExpr:' + _cls, 'exprs': 'elist'}, modifies=['self.contents'],
                     requires=[A('no-raw-plain-strings', 'noplain(eseq(exprs))')],
                     raises={'TypeError': Raises('iscmd(self) and self.name != "item"',
                                                 ensures=[A('unchanged', 'self.contents == old(self.contents)')])},
                     ensures=[P(['C05', 'C15'], 'appended', 'self.contents == concat(old(self.contents), eseq(exprs))')]))


@REG.specfun('iscmd')
def _iscmd(ctx, obj):
    return VB('data.TexCmd' in ctx.engine.repo.mro(obj.a['cls']))


# ---------------------------------------------------------------------- head unfolding of the folds at args[0] / args[1:]
def head_unfold(eng, st, b, pre):
    xs = st.heap[b['self'].a['ref']]['items'].z
    from .tree import group_shape
    import contracts.tree as T
    head, tail = xs[0], SubSeq(xs, 1, Length(xs) - 1)
    nonempty = Length(xs) >= 1
    bare_h = Or(isbare(head), kind(head) == kind_of('data.TexCmd'))
    st.fact(Implies(nonempty, And(SL(xs) == Concat(ser(head), SL(tail)),
                                  NW(SL(xs)) == Concat(NW(ser(head)), NW(SL(tail))),
                                  TAg(xs) == And(tight(head), Not(gapped(head)), Not(bare_h), TAg(tail)),
                                  BARE(xs) == Or(bare_h, BARE(tail)),
                                  AA(xs) == And(T.is_arg_kind(head), AA(tail)))))
    for fn in HEAD_HOOKS:
        fn(st, xs, head, tail, nonempty)
    sl_facts(st, tail)
    group_shape(eng, st, head)


HEAD_HOOKS = []


def concat_facts(st, old, add, new):
    """fold instances for new == old ++ add"""
    from .tree import NP
    st.fact(NP(new) == And(NP(old), NP(add)))
    st.fact(SL(new) == Concat(SL(old), SL(add)))
    st.fact(NW(SL(new)) == Concat(NW(SL(old)), NW(SL(add))))
    st.fact(TL(new) == And(TL(old), TL(add)))
    st.fact(Length(new) == Length(old) + Length(add))
    sl_facts(st, old)
    sl_facts(st, add)
    for fn in CONCAT_HOOKS:
        fn(st, old, add, new)


CONCAT_HOOKS = []


def _append_hook(eng, st, b, pre):
    from .tree import as_eseq
    obj = b['self']
    old = pre.heap[obj.a['ref']]['contents'].z
    new = st.heap[obj.a['ref']]['contents'].z
    add = st.ghost.get('$eseq:%d' % id(b['exprs']))
    if add is None:
        add = as_eseq(b['exprs'], st)
    concat_facts(st, old, add.z, new)


for _c in REG.contracts['data.TexExpr.append']:
    _c.hooks.append(_append_hook)


# ---------------------------------------------------------------------- NW image of the serialiser equations
def _nw_of_str(pieces):
    def hook(eng, st, b, pre):
        from .tree import nw_concat
        obj = b['self']
        f = st.heap[obj.a['ref']]
        A_ = st.heap[f['args'].a['ref']]['items'].z
        C_ = f['contents'].z
        parts = []
        for p in pieces:
            if p == 'A':
                parts.append(SL(A_))
            elif p == 'C':
                parts.append(SL(C_))
            elif p == 'name':
                parts.append(f['name'].z)
            elif p.startswith('attr:'):
                parts.append(pystr(eng.repo.class_attr(obj.a['cls'], p[5:])))
            else:
                parts.append(pystr(p))
        z = Concat(*parts)
        guard = BoolVal(True)
        if obj.a['cls'] == 'data.TexNamedEnv':
            guard = f['name'].z != pystr('[tex]')
        st.fact(Implies(guard, strz(b['result']) == z))
        nw_concat(st, z)
        st.fact(Implies(guard, NW(strz(b['result'])) == NW(z)))
    return hook


REG.contracts['data.TexCmd.__str__'][0].hooks.append(_nw_of_str(['\\', 'name', 'A', 'C']))
for _c in REG.contracts['data.TexEnv.__str__']:
    if _c.case == 'TexNamedEnv':
        _c.hooks.append(_nw_of_str(['\\begin{', 'name', '}', 'A', 'C', '\\end{', 'name', '}']))
    else:
        _c.hooks.append(_nw_of_str(['attr:begin', 'A', 'C', 'attr:end']))


# ---------------------------------------------------------------------- mutators of TexExpr (C05, C14, C15): list splices
_SUPP = "Raises('iscmd(self) and self.name != \"item\"', ensures=[A('unchanged', 'self.contents == old(self.contents)')])"
for _cls in ['data.TexCmd'] + ENVS + ['data.TexEnv', 'data.TexExpr']:
    _short = _cls.split('.')[1]
    REG.add(Contract(
        'data.TexExpr.insert', case=_short, types={'self': 'UExpr:' + _cls, 'i': 'int', 'exprs': 'elist'},
        modifies=['self.contents'], props=['C05', 'C15'],
        requires=[A('index-in-range', '0 <= i and i <= len(self.contents)'),
                  A('no-raw-plain-strings', 'noplain(eseq(exprs))')],
        raises={'TypeError': Raises('iscmd(self) and self.name != "item"',
                                    ensures=[A('unchanged', 'self.contents == old(self.contents)')])},
        ensures=[P(['C05', 'C15'], 'spliced-in-at-the-index',
                   'self.contents == concat(old(self.contents)[:i], eseq(exprs), old(self.contents)[i:])')],
        loops={0: Loop(invariant=[A('length', 'len(self.contents) == len(old(self.contents)) + _k'),
                                  A('before', 'self.contents[:i] == old(self.contents)[:i]'),
                                  A('inserted', 'self.contents[i:i + _k] == eseq(exprs)[:_k]'),
                                  A('after', 'self.contents[i + _k:] == old(self.contents)[i:]'),
                                  A('bound', '_k <= len(eseq(exprs))')],
                       modifies=['self.contents'])}))
    _targeted = P(['C05', 'C15'], 'removes-the-given-object',
                  'old(self.contents)[result] == expr and '
                  'self.contents == concat(old(self.contents)[:result], old(self.contents)[result + 1:])')
    REG.add(Contract(
        'data.TexExpr.remove', case=_short, types={'self': 'UExpr:' + _cls, 'expr': 'E'}, result='int',
        modifies=['self.contents'], props=['C05', 'C15'],
        requires=[A('present', 'occurs(self.contents, expr)')],
        raises={'TypeError': Raises('iscmd(self) and self.name != "item"',
                                    ensures=[A('unchanged', 'self.contents == old(self.contents)')])},
        ensures=[A('removes-first-textual-match',
                   '0 <= result and result < len(old(self.contents)) and ser(old(self.contents)[result]) == ser(expr) and '
                   'self.contents == concat(old(self.contents)[:result], old(self.contents)[result + 1:])'),
                 A('first', 'forall(j, 0, result, ser(old(self.contents)[j]) != ser(expr))'),
                 _targeted.outside('D9', 'forall(j, 0, len(old(self.contents)), '
                                         'implies(ser(old(self.contents)[j]) == ser(expr), old(self.contents)[j] == expr))')]))

OCC = Function('occurs', ESeq, E, BoolSort())     # some element of the list is this very expression (identity)


@REG.specfun('occurs')
def _occurs(ctx, xs, e):
    from pyvc.spec import QBool
    xs = as_eseq(xs, ctx.st)
    # occurs(xs, e) implies a textual match exists (used to exclude ValueError): skolem witness
    w = fresh('occ_at', IntSort())
    ctx.st.fact(Implies(OCC(xs.z, e.z), And(0 <= w, w < Length(xs.z), xs.z[w] == e.z)))
    ctx.engine.touch(ctx.st, w)
    return VB(OCC(xs.z, e.z))


def insert_loop_lemmas(eng, what, payload, st):
    """sequence-theory facts about `lst.insert(i + j, x)` inside TexExpr.insert's loop (valid for 0 <= i <= i+j <= |S|;
    supplied because neither solver derives slice-of-insert facts within its budget)"""
    if what != 'inserted' or eng.cur is None or eng.cur.qual != 'data.TexExpr.insert':
        return None
    from pyvc.sorts import pyslice
    S, ii, x, new, el = payload
    i = st.env.get('i')
    k = st.ghost.get('_k')
    if i is None or k is None or i.ty != 'int':
        return None
    iz, kz, n = i.z, k.z, Length(S)
    ok = And(0 <= iz, 0 <= kz, iz + kz <= n, ii == iz + kz)
    st.fact(Implies(ok, And(pyslice(new, None, iz) == pyslice(S, None, iz),
                            pyslice(new, iz, iz + kz + 1) == Concat(pyslice(S, iz, iz + kz), Unit(x)),
                            pyslice(new, iz + kz + 1, None) == pyslice(S, iz + kz, None))))
    return None


REG.attr_hooks.append(insert_loop_lemmas)
