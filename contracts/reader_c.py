"""Contracts for TexSoup/reader.py over the token-buffer view <T, i> (DESIGN 5.4, Appendix A.2/A.3)."""
import ast

import z3
from z3 import (Function, IntSort, BoolSort, Length, If, And, Or, Not, Implies, Concat, Unit, Empty, IntVal, BoolVal,
                SubSeq, simplify, is_true, is_false)

from pyvc.contracts import Contract, ClassView, P, A, G, Raises, Loop
from pyvc.sorts import Str, Tok, TokSeq, E, ESeq, NONE_CAT, pystr
from pyvc.values import (Val, VI, VB, VS, VNone, VTok, VOpt, VTuple, VSeq, VList, VE, lift, strz, Unsupported, fresh)
from pyvc import ops
from pyvc.ops import ser, str_strip
from .base import REG, JT
from .utils_c import sl, BUF_INV
from .tree import (SL, TL, TAg, BARE, NW, tight, gapped, isbare, kind, body, eargs, ename, epos, etok, kind_of,
                   sl_facts, snoc_facts, nw_lit, as_eseq, PUBLISH_HOOKS)
from . import data_c

CLN = Function('CLN', ESeq, BoolSort())        # no bare-token argument anywhere inside (C08 side condition)
clean = Function('clean', E, BoolSort())
NT = Function('nametight', E, BoolSort())      # \begin{name}: the name group is a tight brace group without blanks


@REG.specfun('clean')
def _clean(ctx, e):
    return VB(clean(e.z))


@REG.specfun('CLN')
def _CLN(ctx, xs):
    xs = as_eseq(xs)
    ctx.st.fact(Implies(Length(xs.z) == 0, CLN(xs.z)))
    return VB(CLN(xs.z))


def wft_z(eng, Q, k):
    """well-formedness facts of token k that the tokenizer contracts establish (texts of the structural tokens)"""
    TC = eng.repo.enum('TC')
    t = Q[k]
    tx, ct = Tok.text(t), Tok.cat(t)
    fs = [Length(tx) > 0, ct >= TC['Escape'], ct <= max(TC.values()),
          Implies(ct == TC['Escape'], tx == pystr('\\')),
          Implies(ct == TC['MergedSpacer'], NW(tx) == Empty(Str)),
          Implies(Or(ct == TC['CommandName'], ct == TC['PunctuationCommandName']), NW(tx) == tx)]
    for cls in data_c.GROUPS + data_c.MATHS:
        b, e = eng.repo.class_attr(cls, 'begin'), eng.repo.class_attr(cls, 'end')
        tb, te = int(eng.repo.class_attr(cls, 'token_begin')), int(eng.repo.class_attr(cls, 'token_end'))
        fs.append(Implies(ct == tb, tx == pystr(b)))
        fs.append(Implies(ct == te, tx == pystr(e)))
    return And(*fs)


@REG.specfun('wft')
def _wft(ctx, buf, k):
    Q = ctx.st.heap[buf.a['ref']]['Q'].z
    return VB(wft_z(ctx.engine, Q, k.z))


WFT = A('token-stream', 'forall(k, 0, len(src.Q), wft(src, k))')
SRC_REQ = [A('inv', 'inv(src)'), WFT, A('cursor-in-range', 'src.i <= len(src.Q)')]
SRC_KEEP = [A('inv', 'inv(src)'), A('cursor-in-range', 'src.i <= len(src.Q)'), A('cursor-monotone', 'src.i >= old(src.i)')]
ALLOWED = {'EOFError': Raises(None, kind='P', props=['C06']), 'TypeError': Raises(None, kind='P', props=['C06']),
           'AssertionError': Raises(None, kind='P', props=['C06'])}
MEASURE = 'len(src.Q) - src.i'
RANK = {'read_spacer': 0, 'read_expr': 1, 'read_arg': 2, 'read_arg_optional': 3, 'read_arg_required': 3, 'read_args': 4,
        'read_command': 5, 'read_item': 6, 'read_math_env': 6, 'read_env': 6, 'read_skip_env': 6, 'read_tex': 7}


def Wx(a, b):
    return 'W(src, %s, %s)' % (a, b)


# ---------------------------------------------------------------------- read_spacer
REG.add(Contract(
    'reader.read_spacer', types={'buf': 'Buffer'}, result='strlike',
    requires=[A('inv', 'inv(buf)'), A('token-stream', 'forall(k, 0, len(buf.Q), wft(buf, k))'),
              A('cursor-in-range', 'buf.i <= len(buf.Q)')],
    modifies=['buf.i', 'buf.m'], props=['C06', 'C09'],
    ensures=[P(['C09'], 'takes-one-spacer-token',
               '(old(buf.i) < len(buf.Q) and buf.Q[old(buf.i)].cat == TC.MergedSpacer) ==> '
               'buf.i == old(buf.i) + 1 and result == buf.Q[old(buf.i)].text and len(result) > 0'),
             P(['C09'], 'otherwise-nothing',
               'not (old(buf.i) < len(buf.Q) and buf.Q[old(buf.i)].cat == TC.MergedSpacer) ==> '
               'buf.i == old(buf.i) and len(result) == 0'),
             A('inv', 'inv(buf)'), A('cursor-in-range', 'buf.i <= len(buf.Q)')]))

# ---------------------------------------------------------------------- unclosed_env_handler: always a diagnostic EOFError
REG.add(Contract(
    'reader.unclosed_env_handler', types={'src': 'Buffer', 'expr': 'UExpr', 'end': 'tok?'}, result='none',
    requires=[A('inv', 'inv(src)')], modifies=['src.m'], props=['C06', 'C07'],
    raises={'EOFError': Raises('True', kind='P', props=['C06'], ensures=[A('cursor-kept', 'src.i == old(src.i)')])}))


# ---------------------------------------------------------------------- publication: ghost predicates of a new expression
def publish_ghost(eng, st, obj, e, sz, A_, C_):
    cls = obj.a['cls']
    st.fact(Implies(Length(A_) == 0, CLN(A_)))
    st.fact(Implies(Length(C_) == 0, CLN(C_)))
    st.fact(clean(e) == And(Not(BARE(A_)), CLN(A_), CLN(C_)))
    st.fact(NW(sz) == NW(ser(e)))
    if cls == 'data.TexNamedEnv':
        st.fact(tight(e) == And(NT(e), TAg(A_), TL(C_)))
        g = obj.a.get('name_group')
        if g is not None:       # defining equation of the ghost predicate NT for this fresh expression
            st.fact(NT(e) == And(tight(g), Not(gapped(g)), Not(isbare(g)), kind(g) == kind_of('data.BraceGroup'),
                                 str_strip(SL(body(g))) == SL(body(g))))
    else:
        st.fact(tight(e) == And(TAg(A_), TL(C_)))


PUBLISH_HOOKS.append(publish_ghost)


def cln_snoc(st, old, x, new):
    st.fact(CLN(new) == And(CLN(old), clean(x)))


# TexArgs.append / hybrid list append: extend the fold instances with the C08 side-condition fold
_orig_snoc = snoc_facts


def snoc_all(st, old, x, new):
    _orig_snoc(st, old, x, new)
    cln_snoc(st, old, x, new)


import contracts.tree as _tree
_tree.snoc_facts = snoc_all
data_c.snoc_facts = snoc_all
from .utils_c import MOVE_IMAGE_HOOKS
MOVE_IMAGE_HOOKS.append(lambda st, cond, whole, left, right: st.fact(
    Implies(cond, And(NW(whole) == Concat(NW(left), NW(right)), NW(Empty(Str)) == Empty(Str)))))


def span_anchor(expr):
    """init hook: one more anchor (e.g. the opener token before the cursor) for the additivity instances"""
    def hook(eng, st, names):
        src = names['src']
        f = st.heap[src.a['ref']]
        from pyvc.spec import Ctx
        a = eng.spec.ev_expr(expr, Ctx(eng, st, names)).z
        st.ghost['anchors:' + src.a['ref']] = [a] + list(st.ghost.get('anchors:' + src.a['ref'], []))
        Q, i = f['Q'].z, f['i'].z
        st.fact(Implies(And(0 <= a, a + 1 == i, i <= Length(Q)), JT(sl(Q, a, i)) == Tok.text(Q[a])))
        st.fact(NW(Empty(Str)) == Empty(Str))
        eng.touch(st, a)
    return hook


def list_append_hook(eng, what, payload, st):
    """`xs.append(e)` on a symbolic list of expressions: supply the fold instances for the extended list"""
    if what == 'listmethod':
        recv, name, args, target, store = payload
        return None
    return None


ENDCAT = '(TC.GroupEnd if c.cat == TC.GroupBegin else TC.BracketEnd)'
ENDTXT = '("}" if c.cat == TC.GroupBegin else "]")'
_RA_SPAN = Wx('old(src.i) - 1', 'src.i')
REG.add(Contract(
    'reader.read_arg', types={'src': 'Buffer', 'c': 'tok', 'tolerance': 'int', 'mode': 'str'}, result='E',
    requires=SRC_REQ + [A('opener-consumed', 'src.i >= 1 and c == src.Q[src.i - 1]'),
                        A('opener-kind', 'c.cat == TC.GroupBegin or c.cat == TC.BracketBegin')],
    modifies=['src.i', 'src.m'], props=['C06', 'C08', 'C09', 'C13', 'C07', 'C01', 'C02'],
    measure=(MEASURE, RANK['read_arg']),
    raises=dict(ALLOWED), init_hooks=[span_anchor('src.i - 1')],
    ensures=SRC_KEEP + [
        P(['C02', 'C09'], 'kind', 'kind(result) == (K("BraceGroup") if c.cat == TC.GroupBegin else K("BracketGroup"))'),
        P(['C13'], 'position', 'epos(result) == c.position'),
        P(['C09', 'C07'], 'strict-implies-closed',
          'tolerance == 0 ==> src.i >= old(src.i) + 1 and src.Q[src.i - 1].cat == ' + ENDCAT),
        P(['C08', 'C01'], 'exact-when-tight', 'tolerance == 0 and tight(result) ==> ser(result) == ' + _RA_SPAN),
        P(['C08'], 'conserves-non-blank', 'tolerance == 0 and clean(result) ==> NW(ser(result)) == NW(%s)' % _RA_SPAN),
        G('gapped', 'gapped(result) == (old(src.i) >= 2 and src.Q[old(src.i) - 2].cat == TC.MergedSpacer)'),
        G('not-bare', 'not isbare(result)')],
    loops={0: Loop(ghost={'content': 'hlist[1,E]'},
                   invariant=[A('inv', 'inv(src)'), A('range', 'old(src.i) <= src.i and src.i <= len(src.Q)'),
                              A('exact', 'tolerance == 0 and TL(content[1:]) ==> SL(content[1:]) == '
                                + Wx('old(src.i)', 'src.i')),
                              A('non-blank', 'tolerance == 0 and CLN(content[1:]) ==> NW(SL(content[1:])) == NW(%s)'
                                % Wx('old(src.i)', 'src.i'))],
                   decreases=MEASURE)}))

_RE_SPAN = Wx('old(src.i)', 'src.i')
REG.add(Contract(
    'reader.read_expr', types={'src': 'Buffer', 'skip_envs': 'seq[str]', 'tolerance': 'int', 'mode': 'str'}, result='E',
    requires=SRC_REQ + [A('has-next', 'src.i < len(src.Q)')],
    modifies=['src.i', 'src.m'], props=['C06', 'C08', 'C13', 'C01', 'C02', 'C10', 'C12'],
    measure=(MEASURE, RANK['read_expr']), raises=dict(ALLOWED),
    ensures=SRC_KEEP + [
        A('progress', 'src.i > old(src.i)'),
        P(['C13'], 'position', 'epos(result) == src.Q[old(src.i)].position'),
        P(['C08', 'C01'], 'exact-when-tight', 'tolerance == 0 and tight(result) ==> ser(result) == ' + _RE_SPAN),
        P(['C08'], 'conserves-non-blank', 'tolerance == 0 and clean(result) ==> NW(ser(result)) == NW(%s)' % _RE_SPAN),
        G('not-bare', 'not isbare(result)')]))
