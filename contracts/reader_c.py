"""Contracts for TexSoup/reader.py over the token-buffer view <T, i> (DESIGN 5.4, Appendix A.2/A.3)."""
import ast

import z3
from z3 import (Function, IntSort, BoolSort, Length, If, And, Or, Not, Implies, Concat, Unit, Empty, IntVal, BoolVal,
                SubSeq, simplify, is_true, is_false)

from pyvc.contracts import Contract, ClassView, P, A, G, Raises, Loop
from pyvc.sorts import Str, Tok, TokSeq, E, ESeq, NONE_CAT, pystr
from pyvc.values import (Val, VI, VB, VS, VNone, VTok, VOpt, VTuple, VSeq, VList, VE, lift, strz, Unsupported, fresh)
from pyvc import ops
from pyvc.ops import ser, str_strip
from .base import REG, JT
from .utils_c import sl, BUF_INV
from .tree import (SL, TL, TAg, BARE, NW, tight, gapped, isbare, kind, body, eargs, ename, epos, etok, kind_of,
                   sl_facts, snoc_facts, nw_lit, as_eseq, PUBLISH_HOOKS)
from . import data_c

CLN = Function('CLN', ESeq, BoolSort())        # no bare-token argument anywhere inside (C08 side condition)
clean = Function('clean', E, BoolSort())
NT = Function('nametight', E, BoolSort())
closer5 = Function('closer5', E, BoolSort())   # closed by exactly the five tokens \ end { name } (else finding D5)      # \begin{name}: the name group is a tight brace group without blanks


@REG.specfun('clean')
def _clean(ctx, e):
    return VB(clean(e.z))


@REG.specfun('CLN')
def _CLN(ctx, xs):
    xs = as_eseq(xs)
    ctx.st.fact(Implies(Length(xs.z) == 0, CLN(xs.z)))
    return VB(CLN(xs.z))


CLEANSRC = Function('cleansrc', TokSeq, BoolSort())   # the source of this token stream has no NUL/DEL characters


@REG.specfun('cleansrc')
def _cleansrc(ctx, buf):
    return VB(CLEANSRC(ctx.st.heap[buf.a['ref']]['Q'].z))


def wft_z(eng, Q, k):
    """well-formedness facts of token k that the tokenizer contracts establish (texts of the structural tokens)"""
    TC = eng.repo.enum('TC')
    t = Q[k]
    tx, ct = Tok.text(t), Tok.cat(t)
    fs = [Length(tx) > 0, ct >= TC['Escape'], ct <= max(TC.values()),
          Implies(ct == TC['Escape'], tx == pystr('\\')),
          Implies(ct == TC['MergedSpacer'], NW(tx) == Empty(Str)),
          Implies(Or(ct == TC['CommandName'], ct == TC['PunctuationCommandName']),
                  And(NW(tx) == tx, str_strip(tx) == tx)),
          # with no NUL/DEL in the input, a backslash token is followed by a name token (or by nothing)
          Implies(And(CLEANSRC(Q), ct == TC['Escape'], k + 1 < Length(Q)),
                  Or(Tok.cat(Q[k + 1]) == TC['CommandName'], Tok.cat(Q[k + 1]) == TC['PunctuationCommandName']))]
    for cls in data_c.GROUPS + data_c.MATHS:
        b, e = eng.repo.class_attr(cls, 'begin'), eng.repo.class_attr(cls, 'end')
        tb, te = int(eng.repo.class_attr(cls, 'token_begin')), int(eng.repo.class_attr(cls, 'token_end'))
        fs.append(Implies(ct == tb, tx == pystr(b)))
        fs.append(Implies(ct == te, tx == pystr(e)))
    return And(*(fs + nw_literals(eng)))


def nw_literals(eng):
    """NW on the delimiter literals (definitional: computed from the literal)"""
    fs = []
    for cls in data_c.GROUPS + data_c.MATHS:
        for lit in (eng.repo.class_attr(cls, 'begin'), eng.repo.class_attr(cls, 'end')):
            fs.append(NW(pystr(lit)) == pystr(''.join(ch for ch in lit if ch not in ' \t\n\r')))
    fs.append(NW(pystr('\\')) == pystr('\\'))
    return fs


@REG.specfun('wft')
def _wft(ctx, buf, k):
    Q = ctx.st.heap[buf.a['ref']]['Q'].z
    return VB(wft_z(ctx.engine, Q, k.z))


WFT = A('token-stream', 'forall(k, 0, len(src.Q), wft(src, k))')
# the cursor may stand beyond the end (read_env's fixed `forward(5)`, finding D5); nothing below relies on i <= |T|
SRC_REQ = [A('inv', 'inv(src)'), WFT]
SRC_KEEP = [A('inv', 'inv(src)'), A('cursor-monotone', 'src.i >= old(src.i)')]
ALLOWED = {'EOFError': Raises(None, kind='P', props=['C06']), 'TypeError': Raises(None, kind='P', props=['C06']),
           'AssertionError': Raises(None, kind='P', props=['C06'])}
MEASURE = 'max(len(src.Q) - src.i, 0)'
RANK = {'read_spacer': 0, 'read_expr': 1, 'read_arg': 2, 'read_arg_optional': 3, 'read_arg_required': 3, 'read_args': 4,
        'read_command': 5, 'read_item': 6, 'read_math_env': 6, 'read_env': 6, 'read_skip_env': 6, 'read_tex': 7}


def Wx(a, b):
    return 'W(src, %s, %s)' % (a, b)


# ---------------------------------------------------------------------- read_spacer
REG.add(Contract(
    'reader.read_spacer', types={'buf': 'Buffer'}, result='strlike',
    requires=[A('inv', 'inv(buf)'), A('token-stream', 'forall(k, 0, len(buf.Q), wft(buf, k))'),
              ],
    modifies=['buf.i', 'buf.m'], props=['C06', 'C09'],
    ensures=[P(['C09'], 'takes-one-spacer-token',
               '(old(buf.i) < len(buf.Q) and buf.Q[old(buf.i)].cat == TC.MergedSpacer) ==> '
               'buf.i == old(buf.i) + 1 and result == buf.Q[old(buf.i)].text and len(result) > 0'),
             P(['C09'], 'otherwise-nothing',
               'not (old(buf.i) < len(buf.Q) and buf.Q[old(buf.i)].cat == TC.MergedSpacer) ==> '
               'buf.i == old(buf.i) and len(result) == 0'),
             A('inv', 'inv(buf)')]))

# ---------------------------------------------------------------------- unclosed_env_handler: always a diagnostic EOFError
REG.add(Contract(
    'reader.unclosed_env_handler', types={'src': 'Buffer', 'expr': 'UExpr', 'end': 'tok?'}, result='none',
    requires=[A('inv', 'inv(src)')], modifies=['src.m'], props=['C06', 'C07'],
    raises={'EOFError': Raises('True', kind='P', props=['C06'], ensures=[A('cursor-kept', 'src.i == old(src.i)')])}))


# ---------------------------------------------------------------------- publication: ghost predicates of a new expression
def publish_ghost(eng, st, obj, e, sz, A_, C_):
    cls = obj.a['cls']
    st.fact(Implies(Length(A_) == 0, CLN(A_)))
    st.fact(Implies(Length(C_) == 0, CLN(C_)))
    if cls != 'data.TexNamedEnv':
        st.fact(clean(e) == And(Not(BARE(A_)), CLN(A_), CLN(C_)))
    st.fact(NW(sz) == NW(ser(e)))
    if cls == 'data.TexNamedEnv':
        # closer5(e): the environment was closed by exactly the five tokens  \ end { name }  (otherwise finding D5)
        five = BoolVal(False)
        for ref, f in st.heap.items():
            if 'Q' in f and 'i' in f and f['Q'].ty == 'seq' and f['Q'].a['elem'] == 'tok':
                Q, i = f['Q'].z, f['i'].z
                TCv = eng.repo.enum('TC')
                five = And(i >= 5, i <= Length(Q), Tok.cat(Q[i - 5]) == TCv['Escape'], Tok.text(Q[i - 4]) == pystr('end'),
                           Tok.cat(Q[i - 3]) == TCv['GroupBegin'], Tok.text(Q[i - 2]) == st.heap[obj.a['ref']]['name'].z,
                           Tok.cat(Q[i - 1]) == TCv['GroupEnd'])
                for d in range(1, 6):
                    eng.touch(st, i - d)
        st.fact(closer5(e) == five)
        st.fact(clean(e) == And(Not(BARE(A_)), CLN(A_), CLN(C_), closer5(e), NT(e)))
        st.fact(tight(e) == And(NT(e), TAg(A_), TL(C_), closer5(e)))
        g = obj.a.get('name_group')
        if g is not None:       # defining equation of the ghost predicate NT for this fresh expression
            st.fact(NT(e) == And(tight(g), clean(g), Not(gapped(g)), Not(isbare(g)), kind(g) == kind_of('data.BraceGroup'),
                                 str_strip(SL(body(g))) == SL(body(g)),
                                 st.heap[obj.a['ref']]['name'].z != pystr('[tex]')))      # D6, D17, D18
    else:
        st.fact(tight(e) == And(TAg(A_), TL(C_)))


PUBLISH_HOOKS.append(publish_ghost)


def cln_snoc(st, old, x, new):
    st.fact(CLN(new) == And(CLN(old), clean(x)))


# TexArgs.append / hybrid list append: extend the fold instances with the C08 side-condition fold
_orig_snoc = snoc_facts


def snoc_all(st, old, x, new):
    _orig_snoc(st, old, x, new)
    cln_snoc(st, old, x, new)


import contracts.tree as _tree
_tree.snoc_facts = snoc_all
data_c.snoc_facts = snoc_all
from .utils_c import MOVE_IMAGE_HOOKS
MOVE_IMAGE_HOOKS.append(lambda st, cond, whole, left, right: st.fact(
    Implies(cond, And(NW(whole) == Concat(NW(left), NW(right)), NW(Empty(Str)) == Empty(Str)))))


def nw_base(eng, st, names):
    st.fact(NW(Empty(Str)) == Empty(Str))
    st.fact(str_strip(Empty(Str)) == Empty(Str))


REG.entry_hooks.append(nw_base)


def span_anchor(expr):
    """init hook: one more anchor (e.g. the opener token before the cursor) for the additivity instances"""
    def hook(eng, st, names):
        src = names['src']
        f = st.heap[src.a['ref']]
        from pyvc.spec import Ctx
        a = eng.spec.ev_expr(expr, Ctx(eng, st, names)).z
        st.ghost['anchors:' + src.a['ref']] = [a] + list(st.ghost.get('anchors:' + src.a['ref'], []))
        Q, i = f['Q'].z, f['i'].z
        st.fact(Implies(And(0 <= a, a + 1 == i, i <= Length(Q)), JT(sl(Q, a, i)) == Tok.text(Q[a])))
        st.fact(NW(Empty(Str)) == Empty(Str))
        eng.touch(st, a)
    return hook


def list_append_hook(eng, what, payload, st):
    """`xs.append(e)` on a symbolic list of expressions: supply the fold instances for the extended list"""
    if what == 'listmethod':
        recv, name, args, target, store = payload
        return None
    return None


ENDCAT = '(TC.GroupEnd if c.cat == TC.GroupBegin else TC.BracketEnd)'
ENDTXT = '("}" if c.cat == TC.GroupBegin else "]")'
_RA_SPAN = Wx('old(src.i) - 1', 'src.i')
REG.add(Contract(
    'reader.read_arg', types={'src': 'Buffer', 'c': 'tok', 'tolerance': 'int', 'mode': 'str'}, result='E',
    requires=SRC_REQ + [A('opener-consumed', 'src.i >= 1 and c == src.Q[src.i - 1]'),
                        A('opener-kind', 'c.cat == TC.GroupBegin or c.cat == TC.BracketBegin')],
    modifies=['src.i', 'src.m'], props=['C06', 'C08', 'C09', 'C13', 'C07', 'C01', 'C02'],
    measure=(MEASURE, RANK['read_arg']),
    raises=dict(ALLOWED), init_hooks=[span_anchor('src.i - 1')],
    ensures=SRC_KEEP + [
        P(['C02', 'C09'], 'kind', 'kind(result) == (K("BraceGroup") if c.cat == TC.GroupBegin else K("BracketGroup"))'),
        P(['C13'], 'position', 'epos(result) == c.position'),
        P(['C09', 'C07'], 'strict-implies-closed',
          'tolerance == 0 ==> src.i >= old(src.i) + 1 and src.Q[src.i - 1].cat == ' + ENDCAT),
        P(['C08', 'C01'], 'exact-when-tight', 'tolerance == 0 and cleansrc(src) and tight(result) ==> ser(result) == ' + _RA_SPAN),
        P(['C08'], 'conserves-non-blank', 'tolerance == 0 and cleansrc(src) and clean(result) ==> NW(ser(result)) == NW(%s)' % _RA_SPAN),
        A('not-a-raw-string', 'kind(result) != KSTR()'),
        G('gapped', 'gapped(result) == (old(src.i) >= 2 and src.Q[old(src.i) - 2].cat == TC.MergedSpacer)'),
        G('not-bare', 'not isbare(result)')],
    loops={0: Loop(ghost={'content': 'hlist[1,E]'},
                   invariant=[A('inv', 'inv(src)'), A('range', 'old(src.i) <= src.i'),
                              A('no-raw-strings', 'noplain(content[1:])'),
                              A('exact', 'tolerance == 0 and cleansrc(src) and TL(content[1:]) ==> SL(content[1:]) == '
                                + Wx('old(src.i)', 'src.i')),
                              A('non-blank', 'tolerance == 0 and cleansrc(src) and CLN(content[1:]) ==> NW(SL(content[1:])) == NW(%s)'
                                % Wx('old(src.i)', 'src.i'))],
                   decreases=MEASURE)}))

_RE_SPAN = Wx('old(src.i)', 'src.i')
REG.add(Contract(
    'reader.read_expr', types={'src': 'Buffer', 'skip_envs': 'seq[str]', 'tolerance': 'int', 'mode': 'str'}, result='E',
    requires=SRC_REQ + [A('has-next', 'src.i < len(src.Q)')],
    modifies=['src.i', 'src.m'], props=['C06', 'C08', 'C13', 'C01', 'C02', 'C10', 'C12'],
    measure=(MEASURE, RANK['read_expr']), raises=dict(ALLOWED),
    ensures=SRC_KEEP + [
        A('progress', 'src.i > old(src.i)'), A('not-a-raw-string', 'kind(result) != KSTR()'),
        P(['C13'], 'position', 'kind(result) != K("TexText") ==> epos(result) == src.Q[old(src.i)].position'),
        P(['C13', 'C02'], 'text-leaf-is-the-token', 'kind(result) == K("TexText") ==> etok(result) == src.Q[old(src.i)]'),
        P(['C08', 'C01'], 'exact-when-tight', 'tolerance == 0 and cleansrc(src) and tight(result) ==> ser(result) == ' + _RE_SPAN),
        P(['C08'], 'conserves-non-blank', 'tolerance == 0 and cleansrc(src) and clean(result) ==> NW(ser(result)) == NW(%s)' % _RE_SPAN),
        # C12: the opening token alone decides that a math region is read, in every mode (pairs named by the property)
        P(['C12', 'C02'], 'math-opener-yields-the-math-node-of-its-kind',
          '(src.Q[old(src.i)].cat == TC.MathSwitch ==> kind(result) == K("TexMathModeEnv")) and '
          '(src.Q[old(src.i)].cat == TC.DisplayMathSwitch ==> kind(result) == K("TexDisplayMathModeEnv")) and '
          '(src.Q[old(src.i)].cat == TC.MathGroupBegin ==> kind(result) == K("TexMathEnv")) and '
          '(src.Q[old(src.i)].cat == TC.DisplayMathGroupBegin ==> kind(result) == K("TexDisplayMathEnv"))'),
        P(['C11'], 'skipped-environment-body-is-one-raw-text',
          'kind(result) == K("TexNamedEnv") and mode != "mode:special" and ename(result) in skip_envs ==> '
          'len(body(result)) <= 1'),
        G('not-bare', 'not isbare(result)')]))


# ---------------------------------------------------------------------- argument loops
def args_clauses(old_items, old_i, strict='tolerance == 0 and cleansrc(src)'):
    """conservation of an argument list that grew from `old_items` while the cursor moved from `old_i`"""
    span = Wx(old_i, 'src.i')
    return [
        ('grows', 'len(args.items) >= len(%s)' % old_items),
        ('tight-monotone', 'TAg(args.items) ==> TAg(%s)' % old_items),
        ('clean-monotone', 'CLN(args.items) ==> CLN(%s)' % old_items),
        ('bare-monotone', 'bare(%s) ==> bare(args.items)' % old_items),
        ('exact', '%s and TAg(args.items) ==> SL(args.items) == concat(SL(%s), %s)' % (strict, old_items, span)),
        ('non-blank', '%s and CLN(args.items) and not bare(args.items) ==> '
                      'NW(SL(args.items)) == concat(NW(SL(%s)), NW(%s))' % (strict, old_items, span)),
        ('groups-or-commands', 'allargs(args.items)'),
    ]


def count_clauses(var, init):
    return [('count-le', '%s <= %s' % (var, init)), ('count-neg', '%s < 0 ==> %s < 0' % (init, var)),
            ('count-nonneg', '%s >= 0 ==> %s >= 0' % (init, var))]


ARGS_REQ = SRC_REQ + [A('groups-or-commands', 'allargs(args.items)')]
_LOOP_TYPES = {'src': 'Buffer', 'args': 'TexArgs', 'tolerance': 'int', 'mode': 'str'}

for _fn, _n, _open, _props in (('read_arg_optional', 'n_optional', 'TC.BracketBegin', ['C09']),
                               ('read_arg_required', 'n_required', 'TC.GroupBegin', ['C09'])):
    _maximal = ('result == 0 or src.i >= len(src.Q) or (src.Q[src.i].cat != %s and not (src.Q[src.i].cat == '
                'TC.MergedSpacer and src.i + 1 < len(src.Q) and src.Q[src.i + 1].cat == %s))' % (_open, _open))
    _ens = [P(['C08', 'C01'] if l in ('exact', 'non-blank') else [], l, t) if l in ('exact', 'non-blank') else A(l, t)
            for l, t in args_clauses('old(args.items)', 'old(src.i)')]
    _ens += [A(l, t) for l, t in count_clauses('result', _n)]
    _ens.append(P(_props + ['C08'], 'maximal-run-spacer-rolled-back', _maximal) if _fn == 'read_arg_optional' else
                P(_props + ['C08'], 'maximal-run-spacer-rolled-back',
                  '%s <= 0 ==> (%s)' % (_n, _maximal)))
    _ens.append(A('no-move-without-arg', 'len(args.items) == len(old(args.items)) ==> src.i == old(src.i)'))
    _ens.append(A('count-tracks-growth', 'result == %s - (len(args.items) - len(old(args.items)))' % _n))
    if _fn == 'read_arg_optional':
        _ens.append(A('no-bare-added', 'bare(args.items) == bare(old(args.items))'))
    else:
        _ens.append(P(['C08'], 'bare-only-with-signature', '%s <= 0 ==> bare(args.items) == bare(old(args.items))' % _n))
    _inv = [A(l, t) for l, t in args_clauses('old(args.items)', 'old(src.i)')] + \
           [A(l, t) for l, t in count_clauses(_n, 'old(%s)' % _n)] + \
           [A('inv', 'inv(src)'), A('range', 'old(src.i) <= src.i'),
            A('no-move-without-arg', 'len(args.items) == len(old(args.items)) ==> src.i == old(src.i)'),
            A('count-tracks-growth', '%s == old(%s) - (len(args.items) - len(old(args.items)))' % (_n, _n))]
    if _fn == 'read_arg_optional':
        _inv.append(A('no-bare-added', 'bare(args.items) == bare(old(args.items))'))
    else:
        _inv.append(A('bare-only-with-signature', 'old(%s) <= 0 ==> bare(args.items) == bare(old(args.items))' % _n))
    REG.add(Contract(
        'reader.' + _fn, types=dict(_LOOP_TYPES, **{_n: 'int'}), result='int', requires=ARGS_REQ,
        modifies=['src.i', 'src.m', 'args.items'], props=['C06', 'C08', 'C09', 'C01'],
        measure=(MEASURE, RANK[_fn]), raises=dict(ALLOWED), ensures=SRC_KEEP + _ens,
        loops={0: Loop(invariant=_inv, decreases=MEASURE + ' + 1', modifies=['src.i', 'src.m', 'args.items'])}))

# ---------------------------------------------------------------------- read_args
_AR_SPAN = Wx('old(src.i)', 'src.i')
REG.add(Contract(
    'reader.read_args',
    types={'src': 'Buffer', 'n_required': 'int', 'n_optional': 'int', 'args': 'none', 'tolerance': 'int', 'mode': 'str'},
    result='TexArgs', requires=SRC_REQ, modifies=['src.i', 'src.m'], props=['C06', 'C08', 'C09', 'C12', 'C01'],
    measure=(MEASURE, RANK['read_args']), raises=dict(ALLOWED),
    ensures=SRC_KEEP + [
        P(['C08', 'C01'], 'exact', 'tolerance == 0 and cleansrc(src) and TAg(result.items) ==> SL(result.items) == ' + _AR_SPAN),
        P(['C08'], 'non-blank', 'tolerance == 0 and cleansrc(src) and CLN(result.items) and not bare(result.items) ==> '
                                'NW(SL(result.items)) == NW(%s)' % _AR_SPAN),
        P(['C12'], 'zero-signature-takes-nothing',
          'n_required == 0 and n_optional == 0 ==> src.i == old(src.i) and len(result.items) == 0'),
        P(['C08'], 'bare-only-with-signature', 'n_required <= 0 ==> not bare(result.items)'),
        # C09, completeness: a bracket group that directly follows, or follows one merged spacer (blanks with at most one
        # line break), is attached - in every mode
        P(['C09'], 'an-attachable-bracket-group-is-attached',
          'n_optional != 0 and old(src.i) < len(src.Q) and (src.Q[old(src.i)].cat == TC.BracketBegin or '
          '(src.Q[old(src.i)].cat == TC.MergedSpacer and old(src.i) + 1 < len(src.Q) and '
          'src.Q[old(src.i) + 1].cat == TC.BracketBegin)) ==> len(result.items) >= 1'),
        P(['C09'], 'an-attachable-brace-group-is-attached',
          'n_required < 0 and n_optional < 0 and old(src.i) < len(src.Q) and (src.Q[old(src.i)].cat == TC.GroupBegin or '
          '(src.Q[old(src.i)].cat == TC.MergedSpacer and old(src.i) + 1 < len(src.Q) and '
          'src.Q[old(src.i) + 1].cat == TC.GroupBegin)) ==> len(result.items) >= 1'),
        A('groups-or-commands', 'allargs(result.items)')]))


# ---------------------------------------------------------------------- read_command
def _sig(eng, pred):
    sig = eng.repo.glob('reader', 'SIGNATURES')
    return [k for k, v in sig.items() if pred(tuple(v))]


ZERO_ARG_OPERATORS = ('cup', 'cap', 'in', 'notin', 'infty')      # named by the statement of C12, not read from the code


@REG.specfun('zero_arg_name')
def _zero_arg_name(ctx, t):
    """one of the zero-argument operators of C12"""
    return VB(ops.disj([strz(t) == pystr(k) for k in ZERO_ARG_OPERATORS]))


@REG.specfun('sig_name')
def _sig_name(ctx, t):
    """the token's text is a key of the signature table"""
    return VB(ops.disj([strz(t) == pystr(k) for k in _sig(ctx.engine, lambda v: True)]))


@REG.specfun('bare_arg_name')
def _bare_arg_name(ctx, t):
    """the signature table gives the command mandatory arguments (which may then be bare tokens)"""
    return VB(ops.disj([strz(t) == pystr(k) for k in _sig(ctx.engine, lambda v: v[0] > 0)]))


_BUF = lambda s: s.replace('src', 'buf')
_RC_SPAN = 'W(buf, old(buf.i) + skip + 1, buf.i)'
_HASNAME = 'old(buf.i) + skip < len(buf.Q)'
REG.add(Contract(
    'reader.read_command',
    types={'buf': 'Buffer', 'n_required_args': 'int', 'n_optional_args': 'int', 'skip': 'int', 'tolerance': 'int',
           'mode': 'str'},
    result='tuple[tok,TexArgs]',
    requires=[A('inv', 'inv(buf)'), A('token-stream', 'forall(k, 0, len(buf.Q), wft(buf, k))'),
              A('skip', '0 <= skip and buf.i + skip <= len(buf.Q)')],
    modifies=['buf.i', 'buf.m'], props=['C06', 'C08', 'C02', 'C12', 'C01'],
    measure=('max(len(buf.Q) - buf.i, 0)', RANK['read_command']), raises=dict(ALLOWED),
    ensures=[A('inv', 'inv(buf)'),
             A('cursor-monotone', 'buf.i >= old(buf.i) + skip'),
             P(['C02'], 'name-token', _HASNAME + ' ==> result[0] == buf.Q[old(buf.i) + skip] and buf.i >= old(buf.i) + skip + 1'),
             P(['C06'], 'lone-backslash', 'not (%s) ==> len(result[0].text) == 0 and len(result[1].items) == 0 and '
                                          'buf.i == old(buf.i) + skip' % _HASNAME),
             P(['C08', 'C01'], 'exact', '%s and tolerance == 0 and cleansrc(buf) and TAg(result[1].items) ==> SL(result[1].items) == %s'
               % (_HASNAME, _RC_SPAN)),
             P(['C08'], 'non-blank', '%s and tolerance == 0 and cleansrc(buf) and CLN(result[1].items) and not bare(result[1].items) ==> '
                                     'NW(SL(result[1].items)) == NW(%s)' % (_HASNAME, _RC_SPAN)),
             P(['C12'], 'zero-argument-operators-take-nothing',
               '%s and n_required_args < 0 and n_optional_args < 0 and zero_arg_name(buf.Q[old(buf.i) + skip]) ==> '
               'buf.i == old(buf.i) + skip + 1 and len(result[1].items) == 0' % _HASNAME),
             # (for every mode: the operators take no argument wherever they stand, also inside a group within math)
             P(['C08'], 'bare-only-with-signature',
               '%s and n_required_args < 0 and n_optional_args < 0 and not bare_arg_name(buf.Q[old(buf.i) + skip]) ==> '
               'not bare(result[1].items)' % _HASNAME),
             # C09: a name that is not a key of the signature table (a starred variant, say) is read with the open signature:
             # a group that may attach does attach
             P(['C09'], 'a-name-outside-the-signature-table-takes-attachable-groups',
               '%s and n_required_args < 0 and n_optional_args < 0 and not sig_name(buf.Q[old(buf.i) + skip]) and '
               'old(buf.i) + skip + 1 < len(buf.Q) and (buf.Q[old(buf.i) + skip + 1].cat in (TC.BracketBegin, TC.GroupBegin) or '
               '(buf.Q[old(buf.i) + skip + 1].cat == TC.MergedSpacer and old(buf.i) + skip + 2 < len(buf.Q) and '
               'buf.Q[old(buf.i) + skip + 2].cat in (TC.BracketBegin, TC.GroupBegin))) ==> len(result[1].items) >= 1' % _HASNAME),
             A('name-split', '%s ==> W(buf, old(buf.i) + skip, buf.i) == concat(result[0].text, %s) and '
                             'NW(W(buf, old(buf.i) + skip, buf.i)) == concat(NW(result[0].text), NW(%s))'
               % (_HASNAME, _RC_SPAN, _RC_SPAN)),
             A('no-bare-when-none-required', 'n_required_args == 0 ==> not bare(result[1].items)'),
             A('groups-or-commands', 'allargs(result[1].items)')],
    loops={0: Loop(invariant=[A('inv', 'inv(buf)'), A('cursor', 'buf.i == old(buf.i) + _k'), A('bound', '_k <= skip')],
                   modifies=['buf.i', 'buf.m'])}))

REG.inline.add('reader.make_read_peek')

data_c.HEAD_HOOKS.append(lambda st, xs, head, tail, nonempty: st.fact(
    Implies(nonempty, CLN(xs) == And(clean(head), CLN(tail)))))
_tree.LEAF_HOOKS.append(lambda st, e: st.fact(And(clean(e), Not(isbare(e)))))


# ---------------------------------------------------------------------- read_item
_STOP_ITEM = ('src.i >= len(src.Q) or src.Q[src.i].cat == TC.GroupEnd or (src.Q[src.i].cat == TC.Escape and '
              'src.i + 1 < len(src.Q) and (src.Q[src.i + 1].text == "end" or src.Q[src.i + 1].text == "item"))')
_LIST_INV = lambda var: [
    A('no-raw-strings', 'noplain(%s)' % var),
    A('inv', 'inv(src)'), A('range', 'old(src.i) <= src.i'),
    A('exact', 'tolerance == 0 and cleansrc(src) and TL(%s) ==> SL(%s) == %s' % (var, var, Wx('old(src.i)', 'src.i'))),
    A('non-blank', 'tolerance == 0 and cleansrc(src) and CLN(%s) ==> NW(SL(%s)) == NW(%s)' % (var, var, Wx('old(src.i)', 'src.i')))]
REG.add(Contract(
    'reader.read_item', types={'src': 'Buffer', 'tolerance': 'int'}, result='seq[E]', requires=SRC_REQ,
    modifies=['src.i', 'src.m'], props=['C06', 'C08', 'C02', 'C01'], measure=(MEASURE, RANK['read_item']),
    raises=dict(ALLOWED),
    ensures=SRC_KEEP + [
        P(['C08', 'C01'], 'exact', 'tolerance == 0 and cleansrc(src) and TL(result) ==> SL(result) == ' + Wx('old(src.i)', 'src.i')),
        P(['C08'], 'non-blank', 'tolerance == 0 and cleansrc(src) and CLN(result) ==> NW(SL(result)) == NW(%s)' % Wx('old(src.i)', 'src.i')),
        P(['C02'], 'owns-up-to-next-item-or-end', _STOP_ITEM), A('no-raw-strings', 'noplain(result)')],
    loops={0: Loop(ghost={'extras': 'seq[E]'}, invariant=_LIST_INV('extras'), decreases=MEASURE)}))

# ---------------------------------------------------------------------- read_math_env (one case per math class)
for _cls in data_c.MATHS:
    _short = _cls.split('.')[1]
    REG.add(Contract(
        'reader.read_math_env', case=_short, types={'src': 'Buffer', 'expr': 'UExpr:' + _cls, 'tolerance': 'int'},
        result='UExpr', requires=SRC_REQ, modifies=['src.i', 'src.m', 'expr.contents'],
        props=['C06', 'C08', 'C12', 'C01'], measure=(MEASURE, RANK['read_math_env']), raises=dict(ALLOWED),
        ensures=SRC_KEEP + [
            A('same-object', 'result is expr'),
            P(['C12'], 'closed-by-its-own-delimiter',
              'src.i >= old(src.i) + 1 and src.Q[src.i - 1].cat == clsattr(expr, "token_end")'),
            P(['C12'], 'an-immediate-closing-delimiter-closes-an-empty-region',
              'old(src.i) < len(src.Q) and src.Q[old(src.i)].cat == clsattr(expr, "token_end") ==> '
              'src.i == old(src.i) + 1 and len(expr.contents) == len(old(expr.contents))'),
            A('tight-monotone', 'TL(expr.contents) ==> TL(old(expr.contents))'),
            A('clean-monotone', 'CLN(expr.contents) ==> CLN(old(expr.contents))'),
            P(['C08', 'C12', 'C01'], 'exact',
              'tolerance == 0 and cleansrc(src) and TL(expr.contents) ==> concat(SL(expr.contents), clsattr(expr, "end")) == '
              'concat(SL(old(expr.contents)), %s)' % Wx('old(src.i)', 'src.i')),
            P(['C08'], 'non-blank',
              'tolerance == 0 and cleansrc(src) and CLN(expr.contents) ==> concat(NW(SL(expr.contents)), clsattr(expr, "end")) == '
              'concat(NW(SL(old(expr.contents))), NW(%s))' % Wx('old(src.i)', 'src.i'))],
        loops={0: Loop(ghost={'contents': 'seq[E]'},
                       invariant=_LIST_INV('contents') + [
                           A('a-closing-delimiter-first-stops-the-loop',
                             'old(src.i) < len(src.Q) and src.Q[old(src.i)].cat == clsattr(expr, "token_end") ==> '
                             'src.i == old(src.i) and len(contents) == 0')],
                       decreases=MEASURE, modifies=['src.i', 'src.m'])}))
data_c.CONCAT_HOOKS.append(lambda st, old, add, new: st.fact(CLN(new) == And(CLN(old), CLN(add))))


# ---------------------------------------------------------------------- read_env / read_skip_env
_ENDTXT = 'concat("\\\\end{", expr.name, "}")'
_FIVE = ('src.i >= 5 and src.i <= len(src.Q) and src.Q[src.i - 5].cat == TC.Escape and src.Q[src.i - 4].text == "end" and '
         'src.Q[src.i - 3].cat == TC.GroupBegin and src.Q[src.i - 2].text == expr.name and '
         'src.Q[src.i - 1].cat == TC.GroupEnd')
_ENV_TYPES = {'src': 'Buffer', 'expr': 'UExpr:data.TexNamedEnv', 'skip_envs': 'seq[str]', 'tolerance': 'int',
              'mode': 'str'}
_env_exact = P(['C08', 'C01'], 'exact',
               'tolerance == 0 and cleansrc(src) and TL(expr.contents) ==> concat(SL(expr.contents), %s) == '
               'concat(SL(old(expr.contents)), %s)' % (_ENDTXT, Wx('old(src.i)', 'src.i')))
_env_nonblank = P(['C08'], 'non-blank',
                  'tolerance == 0 and cleansrc(src) and CLN(expr.contents) ==> concat(NW(SL(expr.contents)), NW(%s)) == '
                  'concat(NW(SL(old(expr.contents))), NW(%s))' % (_ENDTXT, Wx('old(src.i)', 'src.i')))
REG.add(Contract(
    'reader.read_env', types=_ENV_TYPES, result='UExpr', requires=SRC_REQ,
    modifies=['src.i', 'src.m', 'expr.contents'], props=['C06', 'C08', 'C07', 'C01', 'C02'],
    measure=(MEASURE, RANK['read_env']), raises=dict(ALLOWED),
    ensures=SRC_KEEP + [
        A('same-object', 'result is expr'),
        A('tight-monotone', 'TL(expr.contents) ==> TL(old(expr.contents))'),
        A('clean-monotone', 'CLN(expr.contents) ==> CLN(old(expr.contents))'),
        A('strict-consumes-the-closer', 'tolerance == 0 ==> src.i >= old(src.i) + 5'),
        _env_exact.outside('D5', _FIVE), _env_nonblank.outside('D5', _FIVE)],
    loops={0: Loop(ghost={'contents': 'seq[E]'}, invariant=_LIST_INV('contents'), decreases=MEASURE,
                   modifies=['src.i', 'src.m'])}))

REG.add(Contract(
    'reader.read_skip_env', types={'src': 'Buffer', 'expr': 'UExpr:data.TexNamedEnv'}, result='UExpr',
    requires=SRC_REQ, modifies=['src.i', 'src.m', 'expr.contents'], props=['C06', 'C08', 'C11', 'C01'],
    measure=(MEASURE, RANK['read_skip_env']), raises={'EOFError': ALLOWED['EOFError']},
    ensures=SRC_KEEP + [
        A('same-object', 'result is expr'),
        P(['C11'], 'body-is-one-raw-text', 'len(expr.contents) <= len(old(expr.contents)) + 1'),
        A('tight-monotone', 'TL(expr.contents) ==> TL(old(expr.contents))'),
        A('consumes-the-closer', 'src.i >= old(src.i) + 5'),
        A('clean-monotone', 'CLN(expr.contents) ==> CLN(old(expr.contents))'),
        P(['C08', 'C11', 'C01'], 'exact',
          'concat(SL(expr.contents), %s) == concat(SL(old(expr.contents)), %s)'
          % (_ENDTXT, Wx('old(src.i)', 'src.i'))).outside('D5', _FIVE),
        P(['C08', 'C11'], 'non-blank',
          'concat(NW(SL(expr.contents)), NW(%s)) == concat(NW(SL(old(expr.contents))), NW(%s))'
          % (_ENDTXT, Wx('old(src.i)', 'src.i'))).outside('D5', _FIVE)]))


# ---------------------------------------------------------------------- read_tex: the top-level sequence of expressions
_RT_SPAN = 'W(buf, old(buf.i), buf.i)'
REG.add(Contract(
    'reader.read_tex', types={'buf': 'Buffer', 'skip_envs': 'seq[str]', 'tolerance': 'int'}, result='seq[E]',
    generator=True,
    requires=[A('inv', 'inv(buf)'), A('token-stream', 'forall(k, 0, len(buf.Q), wft(buf, k))')],
    modifies=['buf.i', 'buf.m'], props=['C06', 'C08', 'C01', 'C02'],
    measure=('max(len(buf.Q) - buf.i, 0)', RANK['read_tex']), raises=dict(ALLOWED),
    ensures=[A('inv', 'inv(buf)'), P(['C08', 'C01', 'C02'], 'consumes-everything', 'buf.i >= len(buf.Q)'),
             P(['C08', 'C01'], 'exact', 'tolerance == 0 and cleansrc(buf) and TL(result) ==> SL(result) == ' + _RT_SPAN),
             P(['C08'], 'non-blank', 'tolerance == 0 and cleansrc(buf) and CLN(result) ==> NW(SL(result)) == NW(%s)' % _RT_SPAN)],
    loops={0: Loop(invariant=[A('inv', 'inv(buf)'), A('range', 'old(buf.i) <= buf.i'),
                              A('exact', 'tolerance == 0 and cleansrc(buf) and TL(_out) ==> SL(_out) == ' + _RT_SPAN),
                              A('non-blank', 'tolerance == 0 and cleansrc(buf) and CLN(_out) ==> NW(SL(_out)) == NW(%s)' % _RT_SPAN)],
                   decreases='max(len(buf.Q) - buf.i, 0)')}))
