"""Shared registry, specification functions over tokens, and generic engine hooks."""
import ast

import z3
from z3 import (Function, IntSort, BoolSort, Length, If, And, Or, Not, Implies, Concat, Unit, Empty, IntVal, BoolVal,
                SubSeq, simplify, is_true, is_false)

from pyvc.contracts import Registry, Contract, ClassView, Clause, P, A, Raises, Loop
from pyvc.sorts import Str, Tok, TokSeq, E, ESeq, NONE_CAT, pystr
from pyvc.values import (Val, VI, VB, VS, VNone, VTok, VOpt, VTuple, VSeq, VList, VObj, VConst, VE, lift, strz,
                         Unsupported, fresh)
from pyvc import ops

REG = Registry()

JT = Function('jointext', TokSeq, Str)          # ''.join(t.text for t in xs)
TOK_EMPTY = Tok.mk(Empty(Str), IntVal(0), IntVal(NONE_CAT))     # utils.Token.Empty


def jt_facts(xs, st, upto=0):
    """definitional instances of the jointext fold for a sequence term"""
    st.fact(Implies(Length(xs) == 0, JT(xs) == Empty(Str)))
    st.fact(Implies(Length(xs) == 1, JT(xs) == Tok.text(xs[0])))
    st.fact(Length(JT(xs)) >= 0)
    for n in range(2, upto + 1):
        st.fact(Implies(Length(xs) == n, JT(xs) == Concat(*[Tok.text(xs[k]) for k in range(n)])))


def tokjoin_z(xs):
    return If(Length(xs) > 0, Tok.mk(JT(xs), Tok.pos(xs[0]), Tok.cat(xs[0])), TOK_EMPTY)


@REG.specfun('mk')
def _mk(ctx, text, pos, cat):
    return VTok(Tok.mk(strz(text), pos.z, catz_z(cat)))


def catz_z(v):
    if v.ty == 'none':
        return IntVal(NONE_CAT)
    if v.ty == 'opt':
        return If(v.a['isnone'], NONE_CAT, v.a['some'].z)
    if v.ty == 'int':
        return v.z
    raise Unsupported('catz of ' + v.ty)


@REG.specfun('catz')
def _catz(ctx, v):
    return VI(catz_z(v))


@REG.specfun('jointext')
def _jointext(ctx, xs):
    jt_facts(xs.z, ctx.st)
    return VS(JT(xs.z))


@REG.specfun('tokjoin')
def _tokjoin(ctx, xs):
    jt_facts(xs.z, ctx.st)
    return VTok(tokjoin_z(xs.z))


@REG.specfun('tok_empty')
def _tok_empty(ctx):
    return VTok(TOK_EMPTY)


@REG.specfun('concat')
def _concat(ctx, *xs):
    if xs[0].ty == 'seq':
        return VSeq(Concat(*[x.z for x in xs]), xs[0].a['elem'])
    return VS(Concat(*[strz(x) for x in xs]))


@REG.specfun('unit')
def _unit(ctx, x):
    if x.ty == 'tok':
        return VSeq(Unit(x.z), 'tok')
    if x.ty == 'E':
        return VSeq(Unit(x.z), 'E')
    raise Unsupported('unit of ' + x.ty)


# ---------------------------------------------------------------------- generic hooks
def comp_hook(engine, n, st):
    """`f(x) for x in xs` with a single generator and no condition becomes a deferred map value"""
    if isinstance(n, (ast.GeneratorExp, ast.ListComp)) and len(n.generators) == 1 and not n.generators[0].ifs \
            and isinstance(n.generators[0].target, ast.Name):
        g = n.generators[0]
        outs = []
        for o in engine.ev(g.iter, st):
            if o[0] == 'raise':
                outs.append(o)
            else:
                outs.append(('val', o[1], Val('comp', None, elt=n.elt, var=g.target.id, iter=o[2],
                                              islist=isinstance(n, ast.ListComp))))
        return outs
    return None


def join_hook(engine, what, payload, st):
    if what != 'join':
        return None
    recv, arg, node = payload
    if arg.ty == 'comp' and arg.a['iter'].ty == 'seq' and arg.a['iter'].a['elem'] == 'tok' and \
            ast.unparse(arg.a['elt']) == arg.a['var'] + '.text':
        sep = simplify(strz(recv))
        engine.oblige('%s@L%s#join-glue-is-empty' % (engine.cur.key, getattr(node, 'lineno', '?')), st,
                      Length(sep) == 0, 'A')
        xs = arg.a['iter'].z
        jt_facts(xs, st)
        return [('val', st, VS(JT(xs)))]
    return None


def strnew_hook(engine, what, payload, st):
    """str.__new__(cls, text): a new object of class cls (fields are set by the caller)"""
    if what == 'getattr':
        v, attr, node = payload
        if v.ty == 'builtin' and v.a['name'] == 'str' and attr == '__new__':
            def wrapper(eng, args, kwargs, st2, node2):
                cls = args[0]
                obj = st2.new_obj(cls.a['name'], {})
                obj.a['strvalue'] = args[1]
                return [('val', st2, obj)]
            return [('val', st, Val('func', None, wrapper=wrapper))]
    return None


REG.call_hooks.append(comp_hook)
REG.attr_hooks.append(join_hook)
REG.attr_hooks.append(strnew_hook)
