"""Contracts for TexSoup/utils.py: Token, Buffer, CharToLineOffset."""
import ast

import z3
from z3 import (Function, IntSort, BoolSort, Length, If, And, Or, Not, Implies, Concat, Unit, Empty, IntVal, BoolVal,
                SubSeq, simplify, is_true, is_false)

from pyvc.contracts import Contract, ClassView, P, A, Raises, Loop
from pyvc.sorts import Str, Tok, TokSeq, NONE_CAT
from pyvc.values import (Val, VI, VB, VS, VNone, VTok, VOpt, VTuple, VSeq, VList, lift, strz, Unsupported, fresh)
from pyvc import ops
from .base import REG, JT, jt_facts, tokjoin_z, TOK_EMPTY

# =====================================================================================================
# Token  (a value: text, position, category).  `aligned` facts for C13 are stated at the property level.
# =====================================================================================================
TOKEN_NEW_ENS = [
    P(['C13', 'C19'], 'text', 'result.text == (text.text if is_tok else text)'),
]

REG.add(Contract(
    'utils.Token.__new__', case='from-token',
    types={'cls': 'const:Token', 'text': 'tok', 'position': 'int?', 'category': 'int?'}, result='freshtok',
    ensures=[
        P(['C13', 'C19'], 'text', 'result.text == text.text'),
        P(['C13'], 'position-copied', 'result.position == text.position'),
        P(['C19'], 'category', 'catz(result.category) == (catz(category) if truthy(category) else text.cat)'),
    ]))
REG.add(Contract(
    'utils.Token.__new__', case='from-str',
    types={'cls': 'const:Token', 'text': 'str', 'position': 'int?', 'category': 'int?'}, result='freshtok',
    requires=[A('position-given', 'position is not None')],
    ensures=[
        P(['C13', 'C19'], 'text', 'result.text == text'),
        P(['C13'], 'position', 'result.position == some(position)'),
        P(['C19'], 'category', 'catz(result.category) == catz(category)'),
    ]))

for _name in ('__add__', '__iadd__'):
    REG.add(Contract(
        'utils.Token.' + _name, case='tok', types={'self': 'tok', 'other': 'tok'}, result='freshtok',
        ensures=[P(['C13', 'C19'], 'text', 'result.text == concat(self.text, other.text)'),
                 P(['C13'], 'position', 'result.position == self.position'),
                 P(['C19'], 'category', 'result.cat == self.cat')]))
    REG.add(Contract(
        'utils.Token.' + _name, case='str', types={'self': 'tok', 'other': 'str'}, result='freshtok',
        ensures=[P(['C13', 'C19'], 'text', 'result.text == concat(self.text, other)'),
                 P(['C13'], 'position', 'result.position == self.position'),
                 P(['C19'], 'category', 'result.cat == self.cat')]))

REG.add(Contract(
    'utils.Token.__radd__', types={'self': 'tok', 'other': 'str'}, result='freshtok',
    ensures=[P(['C13'], 'text', 'result.text == concat(other, self.text)'),
             P(['C13'], 'position', 'result.position == self.position - len(other)'),
             A('category', 'result.cat == self.cat')]))

REG.add(Contract(
    'utils.Token.join', types={'cls': 'const:Token', 'tokens': 'seq[tok]', 'glue': 'str'}, result='tok',
    requires=[A('glue-empty', 'len(glue) == 0')],
    ensures=[P(['C13', 'C19', 'C20'], 'value', 'result == tokjoin(tokens)'),
             A('fresh-iff-nonempty', 'fresh(result) == (len(tokens) > 0)')]))

REG.add(Contract(
    'utils.Token.__getitem__', case='int', types={'self': 'tok', 'i': 'int'}, result='freshtok',
    raises={'IndexError': Raises('i < -len(self.text) or i >= len(self.text)')},
    ensures=[P(['C13'], 'text', 'result.text == self.text[(i if i >= 0 else len(self.text) + i):'
                                '(i if i >= 0 else len(self.text) + i) + 1]'),
             P(['C13'], 'position', 'result.position == self.position + (i if i >= 0 else len(self.text) + i)'),
             A('category', 'result.cat == self.cat')]))
REG.add(Contract(
    'utils.Token.__getitem__', case='slice', types={'self': 'tok', 'i': 'slice[int?,int?]'}, result='freshtok',
    ensures=[P(['C13'], 'text', 'result.text == self.text[i.start:i.stop]'),
             P(['C13'], 'position',
               'result.position == self.position + (0 if i.start is None else '
               '(len(self.text) + some(i.start) if some(i.start) < 0 else some(i.start)))'),
             A('category', 'result.cat == self.cat')]))

REG.add(Contract('utils.Token.__eq__', case='tok', types={'self': 'tok', 'other': 'tok'}, result='bool',
                 ensures=[A('textual', 'result == (self.text == other.text)')]))
REG.add(Contract('utils.Token.__eq__', case='str', types={'self': 'tok', 'other': 'str'}, result='bool',
                 ensures=[A('textual', 'result == (self.text == other)')]))
REG.add(Contract('utils.Token.__bool__', types={'self': 'tok'}, result='bool',
                 ensures=[A('nonempty', 'result == (len(self.text) > 0)')]))
REG.add(Contract('utils.Token.__str__', types={'self': 'tok'}, result='str',
                 ensures=[A('text', 'result == self.text')]))


# =====================================================================================================
# Buffer: abstract view <Q, i, m>  (Q: the whole underlying item sequence, i: cursor, m: #materialised)
#   representation map (checked at every store):  __queue == Q[:m],  __i == i,
#   __iterator yields Q[m] next (consumed == m), __join/__init/__empty are the constructor defaults.
# =====================================================================================================
class BufferRep:
    """representation map of utils.Buffer onto the view <Q,i,m> (DESIGN 5.2, A.1)"""

    def __init__(self, raw='tok'):
        self.raw = raw

    def load(self, eng, st, obj, a):
        f = st.heap[obj.a['ref']]
        if a == '_Buffer__i':
            return [('val', st, f['i'])]
        if a == '_Buffer__queue':
            Q, m = f['Q'].z, f['m'].z
            z = SubSeq(Q, 0, m)
            st.fact(Implies(And(0 <= m, m <= Length(Q)), Length(z) == m))
            eng.touch(st, m)
            return [('val', st, Val('seq', z, elem='tok', canon=obj))]
        if a == '_Buffer__iterator':
            return [('val', st, Val('bufiter', None, obj=obj))]
        if a in ('_Buffer__join', '_Buffer__init', '_Buffer__empty') and a in f:
            return [('val', st, f[a])]
        if a in ('_Buffer__join', '_Buffer__init', '_Buffer__empty'):
            init = eng.repo.func('utils.Buffer.__init__')
            args = init.node.args
            names = [x.arg for x in args.args]
            defaults = dict(zip(names[len(names) - len(args.defaults):], args.defaults))
            return [('val', st, eng.default_value(defaults[a[len('_Buffer__'):]], init))]
        return None

    def store(self, eng, st, obj, a, v):
        f = st.heap[obj.a['ref']]
        if a == '_Buffer__i':
            f['i'] = v
            return [('fall', st)]
        if a in ('_Buffer__join', '_Buffer__init', '_Buffer__empty'):
            f[a] = v
            return [('fall', st)]
        if a == '_Buffer__iterator':
            if v.ty == 'seq' and v.a['elem'] == 'tok' and self.raw == 'tok':
                f['Q'] = v
                return [('fall', st)]
            if v.ty == 'str' and self.raw == 'str':
                st.assume(Length(f['Q'].z) == Length(v.z))
                f['$src'] = v
                return [('fall', st)]
            raise Unsupported('Buffer over ' + v.ty)
        if a == '_Buffer__queue' and v.ty == 'list' and not v.a['items']:
            f['m'] = VI(0)
            return [('fall', st)]
        if a == '_Buffer__queue':
            # the only store the code performs is an append: the new list must be Q[:m+1]
            Q, m = f['Q'].z, f['m'].z
            st.fact(Implies(And(0 <= m, m < Length(Q)), Concat(SubSeq(Q, 0, m), Unit(Q[m])) == SubSeq(Q, 0, m + 1)))
            if self.raw == 'str':
                # Q[k] is by definition init(S[k], idx_k): text S[k], category None, position = the index handed to
                # init when item k is materialised (prophecy variable, resolved here: each k is appended once)
                x = v.z[m]
                eng.oblige('%s#repmap.queue-item' % eng.cur.key, st,
                           And(m < Length(Q), Length(v.z) == m + 1, SubSeq(v.z, 0, m) == SubSeq(Q, 0, m),
                               Tok.text(x) == Tok.text(Q[m]), Tok.cat(x) == NONE_CAT), 'A')
                st.assume(Tok.pos(Q[m]) == Tok.pos(x))
                st.assume(v.z == SubSeq(Q, 0, m + 1))
            else:
                eng.oblige('%s#repmap.queue==Q[:m]' % eng.cur.key, st,
                           And(m < Length(Q), v.z == SubSeq(Q, 0, m + 1)), 'A')
            f['m'] = VI(m + 1)
            return [('fall', st)]
        raise Unsupported('store to Buffer field ' + a)


def bufiter_hook(eng, what, payload, st):
    if what == 'builtin':
        name, args, kwargs, node = payload
        if name == 'next' and args and args[0].ty == 'bufiter':
            obj = args[0].a['obj']
            f = st.heap[obj.a['ref']]
            Q, m = f['Q'].z, f['m'].z
            view = eng.view_of(obj)
            t, e = eng.split(st, m < Length(Q))
            outs = []
            if e is not None:
                outs.append(('raise', e, 'StopIteration'))
            if t is not None:
                eng.touch(t, m)
                if view.repmap.raw == 'tok':
                    outs.append(('val', t, VTok(Q[m])))
                else:
                    t.fact(Length(Tok.text(Q[m])) == 1)       # iterating a str yields its characters
                    t.fact(Tok.cat(Q[m]) == NONE_CAT)
                    outs.append(('val', t, VS(Tok.text(Q[m]))))
            return outs
    return None


REG.attr_hooks.append(bufiter_hook)

BUF_INV = [A('m-lo', '0 <= self.m'), A('m-hi', 'self.m <= len(self.Q)'), A('i-lo', 'self.i >= 0'),
           A('materialised-to-cursor', 'self.m >= min(self.i, len(self.Q))')]
REG.view(ClassView('utils.Buffer', 'StrBuffer', {'Q': 'seq[tok]', 'i': 'int', 'm': 'int'}, inv=BUF_INV,
                   repmap=BufferRep('str')), default=False)
REG.view(ClassView('utils.Buffer', 'Buffer', {'Q': 'seq[tok]', 'i': 'int', 'm': 'int'}, inv=BUF_INV,
                   repmap=BufferRep('tok')))

WEAK = [A('m-lo', '0 <= self.m'), A('m-hi', 'self.m <= len(self.Q)'), A('i-lo', 'self.i >= 0')]
KEEP = [A('inv', 'inv(self)'), A('m-grows', 'self.m >= old(self.m)')]
C20 = ['C20']

REG.add(Contract(
    'utils.Buffer.__next__', types={'self': 'Buffer'}, result='tok', requires=WEAK, modifies=['self.i', 'self.m'],
    ensures=[P(C20, 'item', 'result == self.Q[old(self.i)]'),
             P(C20, 'cursor', 'self.i == old(self.i) + 1'),
             A('m', 'self.m == max(old(self.m), old(self.i) + 1)'),
             A('in-range', 'old(self.i) < len(self.Q)')] + KEEP,
    raises={'StopIteration': Raises('self.i >= len(self.Q)', kind='P', props=C20,
                                    ensures=[P(C20, 'cursor-kept', 'self.i == old(self.i)'),
                                             A('all-materialised', 'self.m == len(self.Q)'),
                                             A('m-grows', 'self.m >= old(self.m)')])},
    loops={0: Loop(invariant=[A('m-lo', '0 <= self.m'), A('m-hi', 'self.m <= len(self.Q)'),
                              A('i-kept', 'self.i == old(self.i)'), A('m-grows', 'self.m >= old(self.m)'),
                              A('m-tight', 'self.m == old(self.m) or self.m <= self.i + 1')],
                   decreases='len(self.Q) - self.m + 1')}))

_GI_LOOP = {0: Loop(invariant=[A('m-lo', '0 <= self.m'), A('m-hi', 'self.m <= len(self.Q)'),
                               A('i-grows', 'self.i >= old(self.i)'), A('m-grows', 'self.m >= old(self.m)'),
                               A('materialised', 'self.i == old(self.i) or self.m >= min(self.i, len(self.Q))'),
                               A('i-bounded', 'self.i == old(self.i) or self.i <= len(self.Q)'),
                               A('m-kept-until-moved', 'self.i == old(self.i) ==> self.m == old(self.m)'),
                               A('moved-only-if-needed', 'self.i == old(self.i) or j is None or old(self.i) <= j')],
                    decreases='len(self.Q) - self.i + 1')}

REG.add(Contract(
    'utils.Buffer.__getitem__', case='int', types={'self': 'Buffer', 'i': 'int'}, result='tok',
    requires=BUF_INV, modifies=['self.i', 'self.m'],
    ensures=[P(C20, 'item', 'i >= 0 ==> result == self.Q[i]'), P(C20, 'cursor-kept', 'self.i == old(self.i)'),
             A('in-range', 'i >= 0 ==> i < len(self.Q)'),
             # negative absolute index: python indexing into the *materialised prefix* (finding D14, not claimed for C20)
             A('negative-wraps-on-materialised', 'i < 0 ==> result == self.Q[old(self.m) + i] and old(self.m) + i >= 0 '
                                                 'and self.m == old(self.m)')] + KEEP,
    raises={'IndexError': Raises('(i >= 0 and i >= len(self.Q)) or (i < 0 and self.m + i < 0)', kind='P', props=C20,
                                 ensures=[P(C20, 'cursor-kept', 'self.i == old(self.i)'),
                                          A('m-kept-if-negative', 'i < 0 ==> self.m == old(self.m)')] + KEEP)},
    loops=_GI_LOOP))

REG.add(Contract(
    'utils.Buffer.__getitem__', case='slice', types={'self': 'Buffer', 'i': 'slice[int?,int?]'}, result='tok',
    requires=WEAK + [A('lo-nonneg', 'i.start is None or some(i.start) >= 0'),
                     A('hi-nonneg', 'i.stop is None or some(i.stop) >= 0'),
                     A('materialised-or-will-be', 'i.stop is None or some(i.stop) >= self.i or '
                                                  'self.m >= min(self.i, len(self.Q))')],
    modifies=['self.i', 'self.m'],
    ensures=[P(C20, 'items', 'result == tokjoin(self.Q[i.start:i.stop])'),
             P(C20, 'cursor-kept', 'self.i == old(self.i)'),
             A('fresh-iff-nonempty', 'fresh(result) == (len(self.Q[i.start:i.stop]) > 0)'),
             A('m-lo', '0 <= self.m'), A('m-hi', 'self.m <= len(self.Q)'), A('m-grows', 'self.m >= old(self.m)'),
             A('materialised-to-stop', 'i.stop is None or self.m >= min(some(i.stop) + 1, len(self.Q))'),
             A('materialised-all', 'i.stop is None ==> self.m == len(self.Q)'),
             A('materialised-kept', 'old(self.m) >= min(self.i, len(self.Q)) ==> self.m >= min(self.i, len(self.Q))')],
    loops=_GI_LOOP))

REG.add(Contract(
    'utils.Buffer.peek', case='int', types={'self': 'Buffer', 'j': 'int'}, result='tok?',
    requires=BUF_INV, modifies=['self.m'],
    ensures=[P(C20, 'item-or-None', 'self.i + j >= 0 ==> '
                                    'result == (self.Q[self.i + j] if self.i + j < len(self.Q) else None)'),
             A('negative-wraps-on-materialised', 'self.i + j < 0 ==> self.m == old(self.m) and result == '
               '(self.Q[self.m + self.i + j] if self.m + self.i + j >= 0 else None)')] + KEEP))
REG.add(Contract(
    'utils.Buffer.peek', case='range', types={'self': 'Buffer', 'j': 'tuple[int,int]'}, result='tok',
    requires=BUF_INV + [A('lo-in-range', 'self.i + j[0] >= 0'), A('hi-in-range', 'self.i + j[1] >= 0')],
    modifies=['self.m'],
    ensures=[P(C20, 'items', 'result == tokjoin(self.Q[self.i + j[0]:self.i + j[1]])'),
             A('fresh-iff-nonempty', 'fresh(result) == (len(self.Q[self.i + j[0]:self.i + j[1]]) > 0)')] + KEEP))

REG.add(Contract(
    'utils.Buffer.hasNext', types={'self': 'Buffer', 'n': 'int'}, result='bool',
    requires=BUF_INV + [A('in-range', 'self.i + n - 1 >= 0')], modifies=['self.m'],
    ensures=[P(C20, 'value', 'result == (self.i + n - 1 < len(self.Q) and len(self.Q[self.i + n - 1].text) > 0)')]
    + KEEP))

REG.add(Contract(
    'utils.Buffer.forward', types={'self': 'Buffer', 'j': 'int'}, result='tok',
    requires=BUF_INV, modifies=['self.i', 'self.m'],
    ensures=[P(C20, 'items', 'result == tokjoin(self.Q[min(old(self.i), old(self.i) + j):max(old(self.i), old(self.i) + j)])'),
             P(C20, 'cursor', 'self.i == old(self.i) + j'),
             A('fresh-iff-nonempty', 'fresh(result) == (len(self.Q[min(old(self.i), old(self.i) + j):'
                                     'max(old(self.i), old(self.i) + j)]) > 0)')] + KEEP,
    raises={'AssertionError': Raises('self.i + j < 0', ensures=[A('cursor-kept', 'self.i == old(self.i)')] + KEEP)}))
REG.add(Contract(
    'utils.Buffer.backward', types={'self': 'Buffer', 'j': 'int'}, result='tok',
    requires=BUF_INV, modifies=['self.i', 'self.m'],
    ensures=[P(C20, 'items', 'result == tokjoin(self.Q[min(old(self.i), old(self.i) - j):max(old(self.i), old(self.i) - j)])'),
             P(C20, 'cursor', 'self.i == old(self.i) - j'),
             A('fresh-iff-nonempty', 'fresh(result) == (len(self.Q[min(old(self.i), old(self.i) - j):'
                                     'max(old(self.i), old(self.i) - j)]) > 0)')] + KEEP,
    raises={'AssertionError': Raises('self.i - j < 0', kind='P', props=C20,
                                     ensures=[A('cursor-kept', 'self.i == old(self.i)')] + KEEP)}))

def slice_head_lemma(sign):
    """sequence-theory instance (both solvers are erratic on it): the first element of a non-empty in-range slice
    Q[lo:hi] is Q[lo], and the slice has hi - lo elements"""
    def hook(eng, st, b, pre):
        from pyvc.sorts import pyslice as _ps, zmin as _mn, zmax as _mx
        buf, j = b.get('self'), b.get('j')
        if buf is None or j is None or buf.ty != 'obj' or j.ty != 'int':
            return
        Q = st.heap[buf.a['ref']]['Q'].z
        i0 = pre.heap[buf.a['ref']]['i'].z
        a, c = i0, i0 + sign * j.z
        lo, hi = _mn(a, c), _mx(a, c)
        sl_ = _ps(Q, lo, hi)
        st.fact(Implies(And(0 <= lo, lo < hi, hi <= Length(Q)), And(sl_[0] == Q[lo], Length(sl_) == hi - lo)))
        eng.touch(st, lo)
    return hook


REG.contracts['utils.Buffer.forward'][0].hooks.append(slice_head_lemma(1))
REG.contracts['utils.Buffer.backward'][0].hooks.append(slice_head_lemma(-1))

REG.add(Contract(
    'utils.Buffer.startswith', types={'self': 'Buffer', 's': 'str'}, result='bool',
    requires=BUF_INV, modifies=['self.m'],
    ensures=[P(C20, 'value', 'result == jointext(self.Q[self.i:self.i + len(s)]).startswith(s)')] + KEEP))
REG.add(Contract(
    'utils.Buffer.endswith', types={'self': 'Buffer', 's': 'str'}, result='bool',
    requires=BUF_INV + [A('in-range', 'self.i - len(s) >= 0')], modifies=['self.m'],
    ensures=[P(C20, 'value', 'result == jointext(self.Q[self.i - len(s):self.i]).endswith(s)')] + KEEP))
REG.add(Contract('utils.Buffer.position', types={'self': 'Buffer'}, result='int',
                 ensures=[P(C20, 'value', 'result == self.i')]))


# ---------------------------------------------------------------------- anchors and jointext additivity
def sl(Q, a, b):
    from pyvc.sorts import pyslice
    return pyslice(Q, a, b)


def _buffers(st):
    for ref, f in st.heap.items():
        if 'Q' in f and 'i' in f and f['Q'].ty == 'seq':
            yield ref, f


def anchor_entry(eng, st, names):
    for ref, f in _buffers(st):
        st.ghost['anchors:' + ref] = list(st.ghost.get('anchors:' + ref, [])) + [f['i'].z]
        st.fact(JT(sl(f['Q'].z, f['i'].z, f['i'].z)) == Empty(Str))


def anchor_loop(eng, st):
    for ref, f in _buffers(st):
        st.ghost['trail:' + ref] = []
        prev = list(st.ghost.get('anchors:' + ref, []))
        Q, ih = f['Q'].z, f['i'].z
        st.ghost['anchors:' + ref] = prev + [ih]
        st.fact(JT(sl(Q, ih, ih)) == Empty(Str))
        # chain instances between the earlier anchors and the loop-head cursor
        for x in range(len(prev)):
            for y in range(x + 1, len(prev)):
                a, b = prev[x], prev[y]
                cond = And(0 <= a, a <= b, b <= ih)
                st.fact(Implies(cond, JT(sl(Q, a, ih)) == Concat(JT(sl(Q, a, b)), JT(sl(Q, b, ih)))))
                for hk in MOVE_IMAGE_HOOKS:
                    hk(st, cond, JT(sl(Q, a, ih)), JT(sl(Q, a, b)), JT(sl(Q, b, ih)))


REG.entry_hooks.append(anchor_entry)
REG.loop_hooks.append(anchor_loop)


def moved_buffers(st, binding, pre):
    """buffers among the arguments whose cursor term changed: (ref, Q, i0, i1)"""
    for v in binding.values():
        if isinstance(v, Val) and v.ty == 'obj' and v.a['ref'] in pre.heap:
            f, f0 = st.heap[v.a['ref']], pre.heap[v.a['ref']]
            if 'Q' in f and 'i' in f and f['Q'].ty == 'seq' and not f['i'].z.eq(f0['i'].z):
                yield v.a['ref'], f['Q'].z, f0['i'].z, f['i'].z


def move_facts(eng, st, binding, pre):
    """cursor moved i0 -> i1: jointext additivity from every anchor (definitional instances of the fold)"""
    for ref, Q, i0, i1 in moved_buffers(st, binding, pre):
        n = Length(Q)
        d = simplify(i1 - i0)
        eng.touch(st, i0)
        if z3.is_int_value(d) and 1 <= d.as_long() <= 4:
            k = d.as_long()
            st.fact(Implies(And(0 <= i0, i0 + k <= n), JT(sl(Q, i0, i0 + k)) ==
                            (Concat(*[Tok.text(Q[i0 + j]) for j in range(k)]) if k > 1 else Tok.text(Q[i0]))))
            for j in range(k):
                eng.touch(st, i0 + j)
        for k in (1, 2, 3, 4, 5):
            st.fact(Implies(And(0 <= i0, i1 == i0 + k, i1 <= n), JT(sl(Q, i0, i1)) ==
                            (Concat(*[Tok.text(Q[i0 + j]) for j in range(k)]) if k > 1 else Tok.text(Q[i0]))))
        trail = list(st.ghost.get('trail:' + ref, []))
        st.ghost['trail:' + ref] = (trail + [i0])[-6:]
        for a in list(st.ghost.get('anchors:' + ref, [])) + [p for p in trail if not p.eq(i0)]:
            # s[a:c] == s[a:b] + s[b:c] for 0 <= a <= b <= c (python slices clamp, so also beyond the end)
            st.fact(Implies(And(0 <= a, a <= i0, i0 <= i1),
                            JT(sl(Q, a, i1)) == Concat(JT(sl(Q, a, i0)), JT(sl(Q, i0, i1)))))
            st.fact(Implies(And(0 <= a), JT(sl(Q, a, a)) == Empty(Str)))
            for hk in MOVE_IMAGE_HOOKS:
                hk(st, And(0 <= a, a <= i0, i0 <= i1), JT(sl(Q, a, i1)), JT(sl(Q, a, i0)), JT(sl(Q, i0, i1)))


MOVE_IMAGE_HOOKS = []      # homomorphic images of the additivity instances (e.g. NW), registered by other domains
REG.post_hooks.append(move_facts)

cond_tok = Function('cond_tok', Tok, BoolSort())
cond_buf = Function('cond_buf', TokSeq, IntSort(), BoolSort())


def callback_hook(eng, what, payload, st):
    if what != 'callback':
        return None
    fv, args = payload
    if fv.a['abstract'] != 'cond' or len(args) != 1:
        return None
    x = args[0]
    if x.ty == 'opt':
        x = x.a['some']
    if x.ty == 'tok':
        return [('val', st, VB(cond_tok(x.z)))]
    if x.ty == 'obj':
        f = st.heap[x.a['ref']]
        return [('val', st, VB(cond_buf(f['Q'].z, f['i'].z)))]
    return None


REG.attr_hooks.append(callback_hook)


@REG.specfun('condv')
def _condv(ctx, cond, buf, k, peek):
    """value of the callback at cursor k (on the item for peek=True, on the buffer itself for peek=False)"""
    f = ctx.st.heap[buf.a['ref']]
    Q = f['Q'].z
    if 'abstract' in cond.a:
        return VB(If(ops.truth(peek), cond_tok(Q[k.z]), cond_buf(Q, k.z)))
    # a concrete closure: evaluate it on a shadow buffer positioned at k (pure, cursor-preserving by assumption)
    eng, st = ctx.engine, ctx.st
    pz = simplify(ops.truth(peek))
    if not (is_true(pz) or is_false(pz)):
        raise Unsupported('symbolic peek flag with a concrete callback')
    shadow = st.new_obj(buf.a['cls'], {'Q': f['Q'], 'i': VI(k.z), 'm': VI(Length(Q))})
    shadow.a['view'] = buf.a.get('view', 'Buffer')
    arg = VTok(Q[k.z]) if is_true(pz) else shadow
    eng.suppress_obligations = getattr(eng, 'suppress_obligations', 0) + 1
    inst = getattr(eng, '_instantiating', 0)
    eng._instantiating = 0
    try:
        outs = eng.call_value(cond, [arg], {}, st, None)
    finally:
        eng.suppress_obligations -= 1
        eng._instantiating = inst
    vals = [o for o in outs if o[0] == 'val']
    if len(outs) != 1 or len(vals) != 1 or vals[0][1] is not st:
        raise Unsupported('callback forks or raises')
    return VB(eng.truth_of(vals[0][2], st))


_FU_INV = [A('i-lo', 'old(self.i) <= self.i'), A('i-hi', 'self.i <= len(self.Q)'), A('inv', 'inv(self)'),
           A('m-grows', 'self.m >= old(self.m)'),
           A('skipped', 'forall(k, old(self.i), self.i, not condv(condition, self, k, peek) and len(self.Q[k].text) > 0)')]

REG.add(Contract(
    'utils.Buffer.forward_until', types={'self': 'Buffer', 'condition': 'fn:cond', 'peek': 'bool'}, result='tok',
    requires=BUF_INV, modifies=['self.i', 'self.m'],
    raises={'AttributeError': Raises('self.i >= len(self.Q)', ensures=[A('cursor-kept', 'self.i == old(self.i)')])},
    ensures=_FU_INV + [
        P(C20, 'stops-at-first', 'self.i < len(self.Q) ==> condv(condition, self, self.i, peek) or '
                                 'len(self.Q[self.i].text) == 0'),
        P(C20 + ['C11'], 'text', 'result.text == jointext(self.Q[old(self.i):self.i])'),
        P(['C13'], 'position', 'result.position == self.Q[old(self.i)].position'),
        A('category-none', 'result.cat == -1')],
    loops={0: Loop(invariant=_FU_INV + [A('c-text', 'c.text == jointext(self.Q[old(self.i):self.i])'),
                                        A('c-pos', 'c.position == self.Q[old(self.i)].position'),
                                        A('c-cat', 'c.cat == -1'), A('entry-in-range', 'old(self.i) < len(self.Q)')],
                   decreases='len(self.Q) - self.i')}))

_NFU_INV = [A('i-lo', 'old(self.i) <= self.i'), A('i-hi', 'self.i <= max(old(self.i), len(self.Q))'), A('inv', 'inv(self)'),
            A('m-grows', 'self.m >= old(self.m)'), A('count', 'i == self.i - old(self.i)'),
            A('c-text', 'c == jointext(self.Q[old(self.i):self.i])'),
            A('skipped', 'forall(k, old(self.i), self.i, not cond_tokv(self, k) and len(self.Q[k].text) > 0)')]


@REG.specfun('cond_tokv')
def _cond_tokv(ctx, buf, k):
    f = ctx.st.heap[buf.a['ref']]
    return VB(cond_tok(f['Q'].z[k.z]))


REG.add(Contract(
    'utils.Buffer.num_forward_until', types={'self': 'Buffer', 'condition': 'fn:cond'}, result='int',
    requires=BUF_INV, modifies=['self.i', 'self.m'],
    ensures=[P(C20, 'cursor-kept', 'self.i == old(self.i)'), A('inv', 'inv(self)'), A('m-grows', 'self.m >= old(self.m)'),
             P(C20, 'count-lo', 'result >= 0 and old(self.i) + result <= max(old(self.i), len(self.Q))'),
             P(C20, 'skipped', 'forall(k, old(self.i), old(self.i) + result, not cond_tokv(self, k) and '
                               'len(self.Q[k].text) > 0)'),
             P(C20, 'stops-at-first', 'old(self.i) + result < len(self.Q) ==> cond_tokv(self, old(self.i) + result) or '
                                      'len(self.Q[old(self.i) + result].text) == 0')],
    loops={0: Loop(invariant=_NFU_INV, decreases='len(self.Q) - self.i')}))

REG.add(Contract('utils.Buffer.__iter__', types={'self': 'Buffer'}, result='Buffer',
                 ensures=[A('self', 'result is self')]))
REG.add(Contract('utils.Buffer.__init__', case='tokens',
                 types={'self': 'Buffer', 'iterator': 'seq[tok]', 'join': 'any', 'empty': 'any', 'init': 'any'},
                 modifies=['self.Q', 'self.i', 'self.m'],
                 ensures=[P(C20, 'sequence', 'self.Q == iterator'), P(C20, 'cursor', 'self.i == 0'),
                          A('nothing-materialised', 'self.m == 0'), A('inv', 'inv(self)')]))


# ---------------------------------------------------------------------- string-backed buffer (input of categorize)
# Q[k] = Token(S[k], idx_k): one-character text, category None, position = cursor at materialisation.
_n = REG.contracts['utils.Buffer.__next__'][0]
REG.add(Contract(
    'utils.Buffer.__next__', case='str', types={'self': 'StrBuffer'}, result='tok',
    requires=WEAK + [A('items-are-characters', 'forall(k, 0, len(self.Q), len(self.Q[k].text) == 1 and self.Q[k].cat == -1)')],
    modifies=['self.i', 'self.m'],
    ensures=list(_n.ensures) + [
        P(['C19'], 'one-character', 'len(result.text) == 1'), A('category-none', 'result.cat == -1'),
        P(['C13', 'C19'], 'position-is-index', 'old(self.m) <= old(self.i) ==> result.position == old(self.i)')],
    raises=_n.raises,
    loops={0: Loop(invariant=list(_n.loops[0].invariant) + [
        A('materialised-items', 'forall(k, old(self.m), self.m, self.Q[k].position == self.i and '
                                'len(self.Q[k].text) == 1 and self.Q[k].cat == -1)')],
        decreases=_n.loops[0].decreases)}))


# =====================================================================================================
# CharToLineOffset: view <src, breaks, n>; breaks = nlpos(src) = ascending offsets of the '\n' characters
# =====================================================================================================
from pyvc.sorts import IntSeq
from pyvc.spec import QBool

NLPOS = Function('nlpos', Str, IntSeq)
REG.view(ClassView('utils.CharToLineOffset', 'CLO', {'src': 'str', 'breaks': 'seq[int]', 'n': 'int'}))


class CLORep:
    MAP = {'line_break_positions': 'breaks', 'src_len': 'n'}

    def load(self, eng, st, obj, a):
        a = self.MAP.get(a, a)
        f = st.heap[obj.a['ref']]
        return [('val', st, f[a])] if a in f else None

    def store(self, eng, st, obj, a, v):
        st.heap[obj.a['ref']][self.MAP.get(a, a)] = v
        if self.MAP.get(a, a) == 'breaks' and v.z is not None and z3.is_app(v.z) and v.z.decl().eq(NLPOS):
            st.heap[obj.a['ref']]['src'] = VS(v.z.arg(0))     # ghost field: the string the offsets were taken from
        return [('fall', st)]


REG.views['CLO'].repmap = CLORep()


def nlpos_facts(eng, st, s):
    """definition of nlpos(s) = [i for i, c in enumerate(s) if c == '\\n'] (ascending, sound and complete)"""
    B = NLPOS(s)
    LF = IntVal(10)
    eng.assume_clause(st, [
        QBool(BoolVal(True), IntVal(0), Length(B), lambda j: And(0 <= B[j], B[j] < Length(s), s[B[j]] == LF)),
        QBool(BoolVal(True), IntVal(0), Length(B) - 1, lambda j: B[j] < B[j + 1])])
    st.fact(Length(B) <= Length(s))


def nlcomp_hook(eng, n, st):
    """[i for i, c in enumerate(src) if c == '\\n']"""
    if isinstance(n, ast.ListComp) and ast.unparse(n) in ("[i for (i, c) in enumerate(src) if c == '\\n']", "[i for i, c in enumerate(src) if c == '\\n']"):
        outs = []
        for o in eng.ev(ast.Name(id='src', ctx=ast.Load()), st):
            if o[0] == 'raise':
                outs.append(o)
                continue
            s = strz(o[2]) if o[2].ty in ('str', 'tok') else None
            if s is None:
                raise Unsupported('CharToLineOffset over ' + o[2].ty)
            nlpos_facts(eng, o[1], s)
            outs.append(('val', o[1], VSeq(NLPOS(s), 'int')))
        return outs
    return None


REG.call_hooks.insert(0, nlcomp_hook)


def bisect_hook(eng, n, st):
    """bisect.bisect(a, x) (= bisect_right) / bisect.bisect_left: external, under its documented contract"""
    if isinstance(n, ast.Call) and isinstance(n.func, ast.Attribute) and isinstance(n.func.value, ast.Name) and \
            n.func.value.id == 'bisect' and n.func.attr in ('bisect', 'bisect_right', 'bisect_left') and len(n.args) == 2:
        cur, raises = eng.evs(n.args, st)
        outs = list(raises)
        for s, (a, x) in cur:
            if a.ty != 'seq' or a.a['elem'] != 'int' or x.ty != 'int':
                raise Unsupported('bisect on %s' % a.ty)
            r = fresh('bisect', IntSort())
            s.assume(And(0 <= r, r <= Length(a.z)))
            left = n.func.attr == 'bisect_left'
            eng.assume_clause(s, [
                QBool(BoolVal(True), IntVal(0), r, (lambda j, a=a, x=x: a.z[j] < x.z) if left else
                      (lambda j, a=a, x=x: a.z[j] <= x.z)),
                QBool(BoolVal(True), r, Length(a.z), (lambda j, a=a, x=x: a.z[j] >= x.z) if left else
                      (lambda j, a=a, x=x: a.z[j] > x.z))])
            eng.touch(s, r)
            eng.touch(s, r - 1)
            outs.append(('val', s, VI(r)))
        return outs
    return None


REG.call_hooks.insert(0, bisect_hook)


@REG.specfun('nlpos')
def _nlpos(ctx, s):
    nlpos_facts(ctx.engine, ctx.st, strz(s))
    return VSeq(NLPOS(strz(s)), 'int')


REG.add(Contract('utils.CharToLineOffset.__init__', types={'self': 'CLO', 'src': 'strlike'},
                 modifies=['self.src', 'self.breaks', 'self.n'],
                 ensures=[P(['C13'], 'breaks', 'self.breaks == nlpos(src)'), P(['C13'], 'length', 'self.n == len(src)'),
                          A('ghost-src', 'self.src == src')]))
# same function without the range restriction (used by the error paths of the readers): never raises
REG.add(Contract(
    'utils.CharToLineOffset.__call__', case='any-offset', types={'self': 'CLO', 'char_pos': 'int'},
    result='tuple[int,int]',
    requires=[A('breaks', 'self.breaks == nlpos(self.src)'), A('length', 'self.n == len(self.src)')],
    props=['C06'], ensures=[A('line-in-range', '0 <= result[0] and result[0] <= len(self.breaks)')]))
REG.add(Contract(
    'utils.CharToLineOffset.__call__', case='in-range', types={'self': 'CLO', 'char_pos': 'int'}, result='tuple[int,int]',
    requires=[A('breaks', 'self.breaks == nlpos(self.src)'), A('length', 'self.n == len(self.src)'),
              A('offset-in-range', '0 <= char_pos and char_pos < self.n')],
    props=['C13', 'C06'],
    ensures=[A('line-in-range', '0 <= result[0] and result[0] <= len(self.breaks)'),
             P(['C13'], 'line-counts-the-breaks-before',
               'forall(j, 0, len(self.breaks), (j < result[0]) == (self.breaks[j] < char_pos))'),
             P(['C13'], 'column-from-line-start',
               'result[1] == (char_pos if result[0] == 0 else char_pos - self.breaks[result[0] - 1] - 1)'),
             P(['C13'], 'column-nonnegative', 'result[1] >= 0')]))


# ---------------------------------------------------------------------- @to_buffer(): Buffer(f(Buffer(arg)))
def new_buffer(eng, st, Qz, kind='Buffer'):
    obj = st.new_obj('utils.Buffer', {'Q': VSeq(Qz, 'tok'), 'i': VI(0), 'm': VI(0)})
    obj.a['view'] = kind
    return obj


def to_buffer_hook(eng, what, payload, st):
    """a call of a function decorated with @to_buffer(): the decorator's wrap() converts the first argument to a
    Buffer unless it is one and wraps the (generator) result in a Buffer; the generator is consumed lazily by the
    next stage, which owns it (DESIGN 3.4), so it is executed here as a producer of the whole sequence"""
    if what != 'decorated-call':
        return None
    fi, args, kwargs, node = payload
    if 'to_buffer()' not in fi.decorators or getattr(eng, '_in_to_buffer', False):
        return None
    a0 = args[0]
    if a0.ty in ('str', 'tok'):
        s = strz(a0)
        Q = fresh('chars', TokSeq)
        st.fact(Length(Q) == Length(s))
        eng.assume_clause(st, [QBool(BoolVal(True), IntVal(0), Length(Q), lambda k, Q=Q, s=s: And(
            Tok.text(Q[k]) == SubSeq(s, k, 1), Length(Tok.text(Q[k])) == 1, Tok.cat(Q[k]) == NONE_CAT))])
        a0 = new_buffer(eng, st, Q, 'StrBuffer')
        a0.a['source'] = s
    elif a0.ty == 'seq' and a0.a['elem'] == 'tok':
        a0 = new_buffer(eng, st, a0.z)
    elif a0.ty != 'obj':
        raise Unsupported('to_buffer over ' + a0.ty)
    eng._in_to_buffer = True
    try:
        outs = eng.call_function(fi.qual, [a0] + list(args[1:]), kwargs, st, node)
    finally:
        eng._in_to_buffer = False
    res = []
    for o in outs:
        if o[0] == 'val' and o[2].ty == 'seq':
            b = new_buffer(eng, o[1], o[2].z)
            b.a['produced_by'] = fi.qual
            b.a['input'] = a0
            for hk in STAGE_HOOKS:
                hk(eng, o[1], b)
            res.append(('val', o[1], b))
        else:
            res.append(o)
    return res


STAGE_HOOKS = []     # callables(engine, st, wrapped buffer) after a @to_buffer() stage has produced its output
REG.attr_hooks.append(to_buffer_hook)
