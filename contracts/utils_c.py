"""Contracts for TexSoup/utils.py: Token, Buffer, CharToLineOffset."""
import ast

import z3
from z3 import (Function, IntSort, BoolSort, Length, If, And, Or, Not, Implies, Concat, Unit, Empty, IntVal, BoolVal,
                SubSeq, simplify, is_true, is_false)

from pyvc.contracts import Contract, ClassView, P, A, Raises, Loop
from pyvc.sorts import Str, Tok, TokSeq, NONE_CAT
from pyvc.values import (Val, VI, VB, VS, VNone, VTok, VOpt, VTuple, VSeq, VList, lift, strz, Unsupported, fresh)
from pyvc import ops
from .base import REG, JT, jt_facts, tokjoin_z, TOK_EMPTY

# =====================================================================================================
# Token  (a value: text, position, category).  `aligned` facts for C13 are stated at the property level.
# =====================================================================================================
TOKEN_NEW_ENS = [
    P(['C13', 'C19'], 'text', 'result.text == (text.text if is_tok else text)'),
]

REG.add(Contract(
    'utils.Token.__new__', case='from-token',
    types={'cls': 'const:Token', 'text': 'tok', 'position': 'int?', 'category': 'int?'}, result='freshtok',
    ensures=[
        P(['C13', 'C19'], 'text', 'result.text == text.text'),
        P(['C13'], 'position-copied', 'result.position == text.position'),
        P(['C19'], 'category', 'catz(result.category) == (catz(category) if truthy(category) else text.cat)'),
    ]))
REG.add(Contract(
    'utils.Token.__new__', case='from-str',
    types={'cls': 'const:Token', 'text': 'str', 'position': 'int?', 'category': 'int?'}, result='freshtok',
    requires=[A('position-given', 'position is not None')],
    ensures=[
        P(['C13', 'C19'], 'text', 'result.text == text'),
        P(['C13'], 'position', 'result.position == some(position)'),
        P(['C19'], 'category', 'catz(result.category) == catz(category)'),
    ]))

for _name in ('__add__', '__iadd__'):
    REG.add(Contract(
        'utils.Token.' + _name, case='tok', types={'self': 'tok', 'other': 'tok'}, result='freshtok',
        ensures=[P(['C13', 'C19'], 'text', 'result.text == concat(self.text, other.text)'),
                 P(['C13'], 'position', 'result.position == self.position'),
                 P(['C19'], 'category', 'result.cat == self.cat')]))
    REG.add(Contract(
        'utils.Token.' + _name, case='str', types={'self': 'tok', 'other': 'str'}, result='freshtok',
        ensures=[P(['C13', 'C19'], 'text', 'result.text == concat(self.text, other)'),
                 P(['C13'], 'position', 'result.position == self.position'),
                 P(['C19'], 'category', 'result.cat == self.cat')]))

REG.add(Contract(
    'utils.Token.__radd__', types={'self': 'tok', 'other': 'str'}, result='freshtok',
    ensures=[P(['C13'], 'text', 'result.text == concat(other, self.text)'),
             P(['C13'], 'position', 'result.position == self.position - len(other)'),
             A('category', 'result.cat == self.cat')]))

REG.add(Contract(
    'utils.Token.join', types={'cls': 'const:Token', 'tokens': 'seq[tok]', 'glue': 'str'}, result='tok',
    requires=[A('glue-empty', 'len(glue) == 0')],
    ensures=[P(['C13', 'C19', 'C20'], 'value', 'result == tokjoin(tokens)'),
             A('fresh-iff-nonempty', 'fresh(result) == (len(tokens) > 0)')]))

REG.add(Contract(
    'utils.Token.__getitem__', case='int', types={'self': 'tok', 'i': 'int'}, result='freshtok',
    raises={'IndexError': Raises('i < -len(self.text) or i >= len(self.text)')},
    ensures=[P(['C13'], 'text', 'result.text == self.text[(i if i >= 0 else len(self.text) + i):'
                                '(i if i >= 0 else len(self.text) + i) + 1]'),
             P(['C13'], 'position', 'result.position == self.position + (i if i >= 0 else len(self.text) + i)'),
             A('category', 'result.cat == self.cat')]))
REG.add(Contract(
    'utils.Token.__getitem__', case='slice', types={'self': 'tok', 'i': 'slice[int?,int?]'}, result='freshtok',
    ensures=[P(['C13'], 'text', 'result.text == self.text[i.start:i.stop]'),
             P(['C13'], 'position',
               'result.position == self.position + (0 if i.start is None else '
               '(len(self.text) + some(i.start) if some(i.start) < 0 else some(i.start)))'),
             A('category', 'result.cat == self.cat')]))

REG.add(Contract('utils.Token.__eq__', case='tok', types={'self': 'tok', 'other': 'tok'}, result='bool',
                 ensures=[A('textual', 'result == (self.text == other.text)')]))
REG.add(Contract('utils.Token.__eq__', case='str', types={'self': 'tok', 'other': 'str'}, result='bool',
                 ensures=[A('textual', 'result == (self.text == other)')]))
REG.add(Contract('utils.Token.__bool__', types={'self': 'tok'}, result='bool',
                 ensures=[A('nonempty', 'result == (len(self.text) > 0)')]))
REG.add(Contract('utils.Token.__str__', types={'self': 'tok'}, result='str',
                 ensures=[A('text', 'result == self.text')]))
