"""Abstract view of the expression tree shared by the reader and data contracts (DESIGN section 4).

Published expressions are values of the uninterpreted sort E with observers; objects that are still being built
(or edited) are heap objects with the view UExpr / TexArgs.  `ser(e)` is *defined* as str(e): at publication the
real `__str__` contract is applied to the object's current fields, so there is no second serialiser that could drift.
"""
import ast

import z3
from z3 import (Function, IntSort, BoolSort, Length, If, And, Or, Not, Implies, Concat, Unit, Empty, IntVal, BoolVal,
                SubSeq, simplify, is_true, is_false)

from pyvc.contracts import Contract, ClassView, P, A, Raises, Loop
from pyvc.sorts import Str, Tok, TokSeq, E, ESeq, NONE_CAT, pystr
from pyvc.values import (Val, VI, VB, VS, VNone, VTok, VOpt, VTuple, VSeq, VList, VE, lift, strz, Unsupported, fresh,
                         retype)
from pyvc import ops
from pyvc.ops import ser
from .base import REG, JT
from .utils_c import sl

SL = Function('SL', ESeq, Str)                 # ''.join(map(str, xs))
TL = Function('TL', ESeq, BoolSort())          # every element tight
TAg = Function('TAg', ESeq, BoolSort())        # argument list: every group tight and not preceded by a dropped spacer
AA = Function('allargs', ESeq, BoolSort())     # every element is a TexGroup or a TexCmd (what TexArgs keeps in the list)
BARE = Function('bare', ESeq, BoolSort())      # some argument was a bare token / bare command (read_arg_required)
NW = Function('NW', Str, Str)                  # erases blank and end-of-line characters (string homomorphism)
tight = Function('tight', E, BoolSort())       # serialises to exactly the tokens it was read from
gapped = Function('gapped', E, BoolSort())     # the token before the group's opener is a MergedSpacer
isbare = Function('isbare', E, BoolSort())     # argument built from a bare token or bare command
kind = Function('kind', E, IntSort())          # class of the expression (index into KINDS)
body = Function('body', E, ESeq)               # _contents
eargs = Function('eargs', E, ESeq)             # args (the groups)
ename = Function('ename', E, Str)
epos = Function('epos', E, IntSort())
closed = Function('closed', E, BoolSort())
etok = Function('etok', E, Tok)                # token of a text leaf

KINDS = ['data.TexText', 'data.TexCmd', 'data.TexNamedEnv', 'data.BraceGroup', 'data.BracketGroup',
         'data.TexMathModeEnv', 'data.TexDisplayMathModeEnv', 'data.TexMathEnv', 'data.TexDisplayMathEnv',
         'data.TexEnv', 'data.TexExpr', 'str', 'token']       # 'str' / 'token': raw plain string / raw Token in a content list
NP = Function('noplain', ESeq, BoolSort())     # no element is a raw plain string (those are wrapped by _as_content)


def kind_of(cls):
    return KINDS.index(cls)


def sl_facts(st, xs):
    st.fact(Implies(Length(xs) == 0, And(SL(xs) == Empty(Str), TL(xs), TAg(xs), Not(BARE(xs)), AA(xs), NP(xs))))
    st.fact(Implies(Length(xs) == 1, SL(xs) == ser(xs[0])))


def snoc_facts(st, old, x, new):
    """fold instances for new == old ++ [x]"""
    st.fact(SL(new) == Concat(SL(old), ser(x)))
    st.fact(NW(SL(new)) == Concat(NW(SL(old)), NW(ser(x))))
    st.fact(TL(new) == And(TL(old), tight(x)))
    bare_x = Or(isbare(x), kind(x) == kind_of('data.TexCmd'))     # bare token group / bare command as an argument
    st.fact(TAg(new) == And(TAg(old), tight(x), Not(gapped(x)), Not(bare_x)))
    st.fact(BARE(new) == Or(BARE(old), bare_x))
    st.fact(Length(new) == Length(old) + 1)
    st.fact(AA(new) == And(AA(old), is_arg_kind(x)))
    st.fact(NP(new) == And(NP(old), kind(x) != kind_of('str')))
    sl_facts(st, old)


def is_arg_kind(x):
    return Or(*[kind(x) == kind_of(c) for c in ('data.BraceGroup', 'data.BracketGroup', 'data.TexCmd')])


@REG.specfun('noplain')
def _noplain(ctx, xs):
    xs = as_eseq(xs, ctx.st)
    sl_facts(ctx.st, xs.z)
    return VB(NP(xs.z))


@REG.specfun('allargs')
def _allargs(ctx, xs):
    xs = as_eseq(xs, ctx.st)
    sl_facts(ctx.st, xs.z)
    return VB(AA(xs.z))


def nw_concat(st, z):
    """NW is a string homomorphism: instance for a concrete concatenation, NW(c) == c for blank-free literal pieces"""
    from pyvc.smt import pyval

    def flat(t):
        if z3.is_app(t) and t.decl().kind() == z3.Z3_OP_SEQ_CONCAT:
            out = []
            for c in t.children():
                out += flat(c)
            return out
        return [t]
    if z3.is_app(z) and z.decl().kind() == z3.Z3_OP_SEQ_CONCAT:
        parts = []
        for c in flat(z):
            v = pyval(c)
            if isinstance(v, list) and all(isinstance(x, int) for x in v):
                lit = ''.join(chr(x) for x in v)
                parts.append(pystr(''.join(ch for ch in lit if ch not in ' \t\n\r')))
            else:
                parts.append(NW(c))
        st.fact(NW(z) == (Concat(*parts) if len(parts) > 1 else parts[0]))


def nw_lit(st, s):
    """NW(c) == c for a blank-free literal"""
    if not any(ch in ' \t\n\r' for ch in s):
        st.fact(NW(pystr(s)) == pystr(s))


@REG.specfun('SL')
def _SL(ctx, xs):
    xs = as_eseq(xs)
    sl_facts(ctx.st, xs.z)
    return VS(SL(xs.z))


@REG.specfun('TL')
def _TL(ctx, xs):
    xs = as_eseq(xs)
    sl_facts(ctx.st, xs.z)
    return VB(TL(xs.z))


@REG.specfun('TAg')
def _TAg(ctx, xs):
    xs = as_eseq(xs)
    sl_facts(ctx.st, xs.z)
    return VB(TAg(xs.z))


@REG.specfun('bare')
def _bare(ctx, xs):
    xs = as_eseq(xs)
    sl_facts(ctx.st, xs.z)
    return VB(BARE(xs.z))


@REG.specfun('NW')
def _NW(ctx, s):
    nw_concat(ctx.st, strz(s))          # homomorphism instance when the argument is a concatenation
    return VS(NW(strz(s)))


@REG.specfun('ser')
def _ser(ctx, e):
    return VS(ser(e.z))


for _n, _f, _mk in (('tight', tight, VB), ('gapped', gapped, VB), ('isbare', isbare, VB), ('kind', kind, VI),
                    ('epos', epos, VI), ('closed', closed, VB), ('ename', ename, VS)):
    def _mkfn(f, mk):
        return lambda ctx, e: mk(f(e.z))
    REG.specfuns[_n] = _mkfn(_f, _mk)


@REG.specfun('body')
def _body(ctx, e):
    return VSeq(body(e.z), 'E')


@REG.specfun('eargs')
def _eargs(ctx, e):
    return VSeq(eargs(e.z), 'E')


@REG.specfun('etok')
def _etok(ctx, e):
    return VTok(etok(e.z))


@REG.specfun('K')
def _K(ctx, name):
    from pyvc.exprs import _const_str
    return VI(kind_of('data.' + _const_str(simplify(name.z))))


@REG.specfun('W')
def _W(ctx, buf, a, b):
    """text of the tokens a..b-1 of a token buffer"""
    Q = ctx.st.heap[buf.a['ref']]['Q'].z
    return VS(JT(sl(Q, a.z, b.z)))


@REG.specfun('eseq')
def _eseq(ctx, v):
    key = '$eseq:%d' % id(v)          # per path (the ghost map is copied when a state forks)
    if key not in ctx.st.ghost:
        ctx.st.ghost[key] = as_eseq(v, ctx.st)
    return ctx.st.ghost[key]


def leaf_of_token(t, st):
    """a raw Token / str stored in a content list (verbatim bodies): a text leaf that prints as itself"""
    e = fresh('e_raw', E)
    if st is not None:
        st.fact(ser(e) == strz(t))
        st.fact(kind(e) == kind_of('token' if t.ty == 'tok' else 'str'))
        st.fact(tight(e))
        for fn in LEAF_HOOKS:
            fn(st, e)
    return VE(e)


LEAF_HOOKS = []


def as_eseq(v, st=None):
    """any list-like value holding expressions -> seq[E]"""
    if v.ty == 'seq' and v.a['elem'] == 'E':
        return v
    if v.ty == 'list' and v.a['items'] and all(x.ty in ('E', 'tok', 'str') for x in v.a['items']) and \
            any(x.ty != 'E' for x in v.a['items']):
        items = [x if x.ty == 'E' else leaf_of_token(x, st) for x in v.a['items']]
        r = retype(VList(items), 'seq[E]')
        if st is not None:      # fold values of a list whose elements are all known
            st.fact(NP(r.z) == And(*[kind(x.z) != kind_of('str') for x in items]))
            st.fact(SL(r.z) == (Concat(*[ser(x.z) for x in items]) if len(items) > 1 else ser(items[0].z)))
            st.fact(TL(r.z) == And(*[tight(x.z) for x in items]))
            st.fact(Length(r.z) == len(items))
        return r
    if v.ty == 'list' and all(x.ty == 'E' for x in v.a['items']):
        return retype(v, 'seq[E]')
    if v.ty == 'tuple' and not v.a['items']:
        return VSeq(Empty(ESeq), 'E')
    if v.ty == 'const' and isinstance(v.a['py'], (tuple, list)) and not v.a['py']:
        return VSeq(Empty(ESeq), 'E')
    if v.ty == 'none':
        return VSeq(Empty(ESeq), 'E')
    if v.ty == 'obj' and v.a.get('view', '') == 'TexArgs' and st is not None:
        # a TexArgs used as an iterable: iterating the list subclass yields its items (read at this point; iterating a
        # list while it is extended by the same call - args.extend(args) - is not modelled)
        return st.heap[v.a['ref']]['items']
    raise Unsupported('not a list of expressions: ' + v.ty)


# ---------------------------------------------------------------------- views
REG.view(ClassView('data.TexArgs', 'TexArgs', {'items': 'seq[E]'}, truth='len(self.items) > 0'))
REG.view(ClassView('data.TexExpr', 'UExpr', {'name': 'str', 'args': 'TexArgs', 'contents': 'seq[E]', 'position': 'int'}))


class UExprRep:
    """field names of the real class onto the view"""
    MAP = {'_contents': 'contents'}

    def load(self, eng, st, obj, a):
        a = self.MAP.get(a, a)
        f = st.heap[obj.a['ref']]
        if a in f and f[a].ty != 'unset':
            return [('val', st, f[a])]
        return None

    def store(self, eng, st, obj, a, v):
        a = self.MAP.get(a, a)
        if st.ghost.get('published:' + obj.a['ref']) is not None:
            eng.oblige('%s#published-expression-not-mutated' % eng.cur.key, st, BoolVal(False), 'A')
        if a == 'contents':
            v = as_eseq(v)
        if a == 'name' and v.ty == 'tok':
            v = VS(strz(v))
        st.heap[obj.a['ref']][a] = v
        return [('fall', st)]


REG.views['UExpr'].repmap = UExprRep()


def publish(eng, st, obj):
    """the object leaves the function that built it: from here on it is a value e of sort E with str(e) fixed"""
    pub = st.ghost.get('published:' + obj.a['ref'])      # per path: states fork, Val objects are shared
    if pub is not None:
        return pub
    cls = obj.a['cls']
    e = fresh('e_' + cls.split('.')[-1], E)
    f = st.heap[obj.a['ref']]
    outs = eng.call_str(obj, st)
    if len(outs) != 1 or outs[0][0] != 'val':
        raise Unsupported('__str__ of %s forks or raises at publication' % cls)
    sz = strz(outs[0][2])
    A_ = st.heap[f['args'].a['ref']]['items'].z
    C_ = f['contents'].z
    sl_facts(st, A_)
    sl_facts(st, C_)
    st.fact(ser(e) == sz)
    nw_concat(st, sz)
    st.fact(kind(e) == kind_of(cls) if cls in KINDS else kind(e) >= len(KINDS))
    st.fact(body(e) == C_)
    st.fact(eargs(e) == A_)
    st.fact(ename(e) == f['name'].z)
    st.fact(epos(e) == f['position'].z)
    for fn in PUBLISH_HOOKS:
        fn(eng, st, obj, e, sz, A_, C_)
    st.ghost['published:' + obj.a['ref']] = VE(e)
    return VE(e)


PUBLISH_HOOKS = []


def coerce_hook(eng, what, payload, st):
    """an object under construction passed where a published expression is expected is published"""
    if what == 'coerce':
        v, ty = payload
        if ty == 'E' and v.ty == 'obj' and eng._view_or_none(v) is REG.views['UExpr']:
            return publish(eng, st, v)
    return None


REG.attr_hooks.append(coerce_hook)


def group_shape(eng, st, g):
    """class invariant of published groups: a Brace/Bracket group prints as begin + contents + end (its __str__ contract;
    published expressions are never mutated by the reader)"""
    for cls in ('data.BraceGroup', 'data.BracketGroup'):
        b, e_ = eng.repo.class_attr(cls, 'begin'), eng.repo.class_attr(cls, 'end')
        st.fact(Implies(And(kind(g) == kind_of(cls), Not(isbare(g))),
                        And(ser(g) == Concat(pystr(b), SL(body(g)), pystr(e_)),
                            NW(ser(g)) == Concat(pystr(b), NW(SL(body(g))), pystr(e_)))))


def e_attr_hook(eng, what, payload, st):
    if what == 'constructed':
        cls, obj, args, kwargs = payload
        if cls == 'data.TexNamedEnv' and args and args[0].a.get('string_of') is not None:
            obj.a['name_group'] = args[0].a['string_of']
        return None
    if what == 'getattr':
        v, attr, node = payload
        if v.ty == 'E':
            if attr == 'string':        # TexExpr.string: TexText(''.join(map(str, self._contents)))
                sl_facts(st, body(v.z))
                group_shape(eng, st, v.z)
                return [('val', st, Val('str', SL(body(v.z)), string_of=v.z))]
            if attr == 'position':
                return [('val', st, VI(epos(v.z)))]
            if attr == 'name':
                return [('val', st, VS(ename(v.z)))]
    if what == 'isinstance':
        v, t = payload
        if v.ty == 'E' and t.ty == 'builtin' and t.a['name'] == 'str':
            # TexText derives from str; raw strings/tokens stored in content lists are leaves of kind 'str'
            return Or(kind(v.z) == kind_of('data.TexText'), kind(v.z) == kind_of('str'), kind(v.z) == kind_of('token'))
        if v.ty == 'E' and t.ty == 'cls' and t.a['name'] == 'utils.Token':
            return kind(v.z) == kind_of('token')
        if v.ty == 'E' and t.ty == 'cls' and t.a['name'] == 'data.TexNode':
            return BoolVal(False)
        if v.ty == 'E' and t.ty == 'cls':
            ks = [k for k, c in enumerate(KINDS) if c.startswith('data.') and t.a['name'] in eng.repo.mro(c)]
            return ops.disj([kind(v.z) == k for k in ks])
    return None


REG.attr_hooks.append(e_attr_hook)


def appended_hook(eng, what, payload, st):
    if what == 'seq-item':
        xs, k, item = payload
        if xs.ty == 'seq' and xs.a['elem'] == 'E':      # an element of a list of arguments is an argument
            st.fact(Implies(And(AA(xs.z), 0 <= k, k < Length(xs.z)), is_arg_kind(xs.z[k])))
            st.fact(Implies(And(NP(xs.z), 0 <= k, k < Length(xs.z)), kind(xs.z[k]) != kind_of('str')))
        return None
    if what == 'inserted':
        old, at, x, new, el = payload
        if el == 'E':
            st.fact(AA(new) == And(AA(old), is_arg_kind(x)))
            st.fact(Implies(at == Length(old), new == Concat(old, Unit(x))))
            sl_facts(st, old)
        return None
    if what == 'appended':
        old, x, new, el = payload
        if el == 'E':
            snoc_facts(st, old, x, new)
    return None


REG.attr_hooks.append(appended_hook)
