"""Contracts for TexSoup/category.py and TexSoup/tokens.py (character categories, tokenizers, tokenize)."""
import z3
from z3 import (Function, IntSort, BoolSort, Length, If, And, Or, Not, Implies, Concat, Unit, Empty, IntVal, BoolVal,
                SubSeq, Contains, simplify)

from pyvc.contracts import Contract, ClassView, P, A, Raises, Loop
from pyvc.sorts import Str, Tok, TokSeq, NONE_CAT, pystr
from pyvc.values import (Val, VI, VB, VS, VNone, VTok, VOpt, VTuple, VSeq, VList, lift, strz, Unsupported, fresh)
from pyvc import ops
from pyvc.loader import Repo
from .base import REG, JT, jt_facts
from .utils_c import BUF_INV, WEAK, KEEP, sl

_table_cache = {}


def catc_z(engine, ch):
    """category of a one-character string, generated from the real CATEGORY_CODES (first match wins, default Other)"""
    table = engine.repo.glob('category', 'CATEGORY_CODES')
    other = engine.repo.enum('CC')['Other']
    z = IntVal(other)
    for cc, values in reversed(list(table.items())):
        if isinstance(values, str):
            cond = Contains(pystr(values), ch)
        else:
            cond = Or(*[ch == pystr(v) for v in values])
        z = If(cond, IntVal(int(cc)), z)
    return z


CATC = Function('catc', Str, IntSort())     # category of a character; its table definition is unfolded on demand


@REG.specfun('catc')
def _catc(ctx, ch):
    z = strz(ch)
    if ctx.st.ghost.get('$unfold_catc'):
        ctx.st.fact(CATC(z) == catc_z(ctx.engine, z))
    else:
        # range of the table (computed from the real CATEGORY_CODES): only these categories are ever assigned
        table = ctx.engine.repo.glob('category', 'CATEGORY_CODES')
        cats = sorted({int(c) for c in table} | {ctx.engine.repo.enum('CC')['Other']})
        lo, hi = min(cats), max(cats)       # an interval with holes: literals only, no case split
        ctx.st.fact(And(CATC(z) >= lo, CATC(z) <= hi, *[CATC(z) != c for c in range(lo, hi + 1) if c not in cats]))
    return VI(CATC(z))


def unfold_catc(engine, st, names):
    st.ghost['$unfold_catc'] = True


CHARS = A('items-are-characters', 'forall(k, 0, len(text.Q), len(text.Q[k].text) == 1 and text.Q[k].cat == -1)')

REG.add(Contract(
    'category.categorize', types={'text': 'StrBuffer'}, result='seq[tok]', generator=True,
    requires=[A('inv', 'inv(text)'), A('fresh-buffer', 'text.i == 0 and text.m == 0'), CHARS],
    modifies=['text.i', 'text.m'], props=['C19', 'C06'], init_hooks=[unfold_catc],
    ensures=[P(['C19'], 'one-token-per-character', 'len(result) == len(text.Q)'),
             P(['C19', 'C13'], 'text-index-category',
               'forall(k, 0, len(result), result[k].text == text.Q[k].text and result[k].position == k and '
               'result[k].cat == catc(text.Q[k].text))'),
             # which characters the tokenizer may drop is fixed by the property, not by the table
             P(['C19', 'C16', 'C08', 'C01'], 'only-NUL-and-DEL-are-ignorable',
               'forall(k, 0, len(result), implies(result[k].cat == CC.Ignored or result[k].cat == CC.Invalid, '
               'result[k].text == "\\x00" or result[k].text == "\\x7f"))')],
    loops={0: Loop(invariant=[A('inv', 'inv(text)'), A('cursor', 'text.i == _k and text.m == _k'),
                              A('count', 'len(_out) == _k'), A('bound', '_k <= len(text.Q)'),
                              A('yielded', 'forall(j, 0, _k, _out[j].text == text.Q[j].text and '
                                           '_out[j].position == j and _out[j].cat == catc(text.Q[j].text))')],
                   decreases='len(text.Q) - text.i')}))


# =====================================================================================================
# tokenizers: f(text, prev) over the character buffer <C, i>
#   claims:  returns a token t with t.text == jointext(C[i:i']), t.position == i, t.cat == K, i' > i
#   passes:  returns None and leaves the cursor where it was
# =====================================================================================================
WFC = A('characters', 'forall(k, 0, len(text.Q), len(text.Q[k].text) == 1 and text.Q[k].position == k and '
                      'text.Q[k].cat == catc(text.Q[k].text))')
TK_REQ = [A('inv', 'inv(text)'), WFC, A('has-next', 'text.i < len(text.Q)')]
TK_TYPES = {'text': 'Buffer', 'prev': 'tok?'}
TK_KEEP = [A('inv', 'inv(text)'), A('m-grows', 'text.m >= old(text.m)'), A('cursor-in-range', 'text.i <= len(text.Q)')]
C19 = ['C19']


def claim(cond, n, cat, props=C19):
    """ensures-clauses of a fixed-length tokenizer: claims `n` characters iff cond"""
    return [
        P(props, 'claims', 'old(%s) ==> result is not None and result.text == jointext(text.Q[old(text.i):old(text.i) + %d]) '
                           'and result.position == old(text.i) and result.cat == %s and text.i == old(text.i) + %d'
          % (cond, n, cat, n)),
        P(props, 'passes', 'not old(%s) ==> result is None and text.i == old(text.i)' % cond),
    ] + TK_KEEP


ESCAPABLE = ('(CC.Escape, CC.GroupBegin, CC.GroupEnd, CC.MathSwitch, CC.Alignment, CC.EndOfLine, CC.Macro, '
             'CC.Superscript, CC.Subscript, CC.Spacer, CC.Active, CC.Comment, CC.Other)')
ESC2 = ('text.Q[text.i].cat == CC.Escape and text.i + 1 < len(text.Q) and text.Q[text.i + 1].cat in ' + ESCAPABLE)

REG.add(Contract('tokens.tokenize_escaped_symbols', types=TK_TYPES, result='tok?', requires=TK_REQ,
                 modifies=['text.i', 'text.m'], props=['C19', 'C06', 'C10', 'C12'],
                 ensures=claim(ESC2, 2, 'TC.EscapedComment', ['C19', 'C10', 'C12'])))

REG.add(Contract('tokens.tokenize_math_sym_switch', types=TK_TYPES, result='tok?', requires=TK_REQ,
                 modifies=['text.i', 'text.m'], props=['C19', 'C06', 'C12'],
                 ensures=claim('text.Q[text.i].cat == CC.MathSwitch and text.i + 1 < len(text.Q) and '
                               'text.Q[text.i + 1].cat == CC.MathSwitch', 2, 'TC.DisplayMathSwitch', ['C19', 'C12'])[:1] +
                 [P(['C19', 'C12'], 'claims-single',
                    'old(text.Q[text.i].cat == CC.MathSwitch and not (text.i + 1 < len(text.Q) and '
                    'text.Q[text.i + 1].cat == CC.MathSwitch)) ==> result is not None and '
                    'result.text == jointext(text.Q[old(text.i):old(text.i) + 1]) and result.position == old(text.i) '
                    'and result.cat == TC.MathSwitch and text.i == old(text.i) + 1'),
                  P(['C19', 'C12'], 'passes', 'old(text.Q[text.i].cat != CC.MathSwitch) ==> result is None and '
                                              'text.i == old(text.i)')] + TK_KEEP))

ASYM = {'BracketBegin': 'DisplayMathGroupBegin', 'BracketEnd': 'DisplayMathGroupEnd', 'ParenBegin': 'MathGroupBegin',
        'ParenEnd': 'MathGroupEnd'}
_asym_ens = []
for _cc, _tc in ASYM.items():
    _asym_ens.append(P(['C19', 'C12'], 'claims-' + _cc,
                       'old(text.i + 1 < len(text.Q) and text.Q[text.i].cat == CC.Escape and text.Q[text.i + 1].cat == CC.%s) '
                       '==> result is not None and result.text == jointext(text.Q[old(text.i):old(text.i) + 2]) and '
                       'result.position == old(text.i) and result.cat == TC.%s and text.i == old(text.i) + 2' % (_cc, _tc)))
_asym_ens.append(P(['C19', 'C12'], 'passes',
                   'not old(text.i + 1 < len(text.Q) and text.Q[text.i].cat == CC.Escape and text.Q[text.i + 1].cat in '
                   '(CC.BracketBegin, CC.BracketEnd, CC.ParenBegin, CC.ParenEnd)) ==> result is None and '
                   'text.i == old(text.i)'))
REG.add(Contract('tokens.tokenize_math_asym_switch', types=TK_TYPES, result='tok?', requires=TK_REQ,
                 modifies=['text.i', 'text.m'], props=['C19', 'C06', 'C12'], ensures=_asym_ens + TK_KEEP))

REG.add(Contract('tokens.tokenize_line_break', types=TK_TYPES, result='tok?', requires=TK_REQ,
                 modifies=['text.i', 'text.m'], props=['C19', 'C06'],
                 ensures=claim('text.Q[text.i].cat == CC.Escape and text.i + 1 < len(text.Q) and '
                               'text.Q[text.i + 1].cat == CC.Escape', 2, 'TC.LineBreak')))

SYM = {'Escape': 'Escape', 'GroupBegin': 'GroupBegin', 'GroupEnd': 'GroupEnd', 'BracketBegin': 'BracketBegin',
       'BracketEnd': 'BracketEnd'}
_sym_ens = []
for _cc, _tc in SYM.items():
    _sym_ens.append(P(['C19', 'C09'], 'claims-' + _cc,
                      'old(text.Q[text.i].cat == CC.%s) ==> result is not None and '
                      'result.text == jointext(text.Q[old(text.i):old(text.i) + 1]) and result.position == old(text.i) '
                      'and result.cat == TC.%s and text.i == old(text.i) + 1' % (_cc, _tc)))
_sym_ens.append(P(['C19', 'C09'], 'passes',
                  'old(text.Q[text.i].cat not in (CC.Escape, CC.GroupBegin, CC.GroupEnd, CC.BracketBegin, CC.BracketEnd)) '
                  '==> result is None and text.i == old(text.i)'))
REG.add(Contract('tokens.tokenize_symbols', types=TK_TYPES, result='tok?', requires=TK_REQ,
                 modifies=['text.i', 'text.m'], props=['C19', 'C06', 'C09'], ensures=_sym_ens + TK_KEEP))

# ---------------------------------------------------------------------- variable-length tokenizers
def run_inv(var, extra=()):
    """loop invariant of `var += text.forward(1)` accumulation loops"""
    return [A('inv', 'inv(text)'), A('m-grows', 'text.m >= old(text.m)'),
            A('i-lo', 'old(text.i) <= text.i'), A('i-hi', 'text.i <= len(text.Q)'),
            A('acc-text', '%s.text == jointext(text.Q[old(text.i):text.i])' % var),
            A('acc-len', 'len(%s.text) == text.i - old(text.i)' % var),
            A('acc-pos', '%s.position == old(text.i)' % var)] + list(extra)


# comment: '%' and everything up to (not including) the next EndOfLine character or the end of input   (C10)
_CM = 'old(text.Q[text.i].cat == CC.Comment and (prev is None or prev.cat != CC.Comment))'
REG.add(Contract(
    'tokens.tokenize_line_comment', types=TK_TYPES, result='tok?', requires=TK_REQ, modifies=['text.i', 'text.m'],
    props=['C19', 'C06', 'C10'],
    ensures=[P(['C19', 'C10'], 'claims',
               '(%s) ==> result is not None and result.text == jointext(text.Q[old(text.i):text.i]) and '
               'result.position == old(text.i) and result.cat == TC.Comment and text.i > old(text.i)' % _CM),
             P(['C10'], 'payload-has-no-line-end',
               '(%s) ==> forall(k, old(text.i) + 1, text.i, text.Q[k].cat != CC.EndOfLine)' % _CM),
             P(['C10'], 'runs-to-line-end',
               '(%s) ==> text.i == len(text.Q) or text.Q[text.i].cat == CC.EndOfLine' % _CM),
             P(['C19', 'C10'], 'passes', 'not (%s) ==> result is None and text.i == old(text.i)' % _CM)] + TK_KEEP,
    loops={0: Loop(invariant=run_inv('result', [
        A('started', 'text.i >= old(text.i) + 1'), A('acc-cat', 'result.cat == -1'),
        A('no-line-end', 'forall(k, old(text.i) + 1, text.i, text.Q[k].cat != CC.EndOfLine)')]),
        decreases='len(text.Q) - text.i')}))

# ignore: skips Ignored/Invalid characters, never yields a token
REG.add(Contract(
    'tokens.tokenize_ignore', types=TK_TYPES, result='none', requires=TK_REQ, modifies=['text.i', 'text.m'],
    props=['C19', 'C06'],
    ensures=[P(['C19'], 'skips-only-ignorable',
               'forall(k, old(text.i), text.i, text.Q[k].cat in (CC.Ignored, CC.Invalid))'),
             P(['C19'], 'maximal', 'text.i == len(text.Q) or text.Q[text.i].cat not in (CC.Ignored, CC.Invalid)'),
             A('i-lo', 'old(text.i) <= text.i'), A('i-hi', 'text.i <= len(text.Q)')] + TK_KEEP,
    loops={0: Loop(invariant=[A('inv', 'inv(text)'), A('m-grows', 'text.m >= old(text.m)'),
                              A('i-lo', 'old(text.i) <= text.i'), A('i-hi', 'text.i <= len(text.Q)'),
                              A('skipped', 'forall(k, old(text.i), text.i, text.Q[k].cat in (CC.Ignored, CC.Invalid))')],
                   decreases='len(text.Q) - text.i')}))

# string: maximal run of characters outside the stop set; None when the run is empty
STOP = '(CC.Escape, CC.GroupBegin, CC.GroupEnd, CC.MathSwitch, CC.BracketBegin, CC.BracketEnd, CC.Comment)'
REG.add(Contract(
    'tokens.tokenize_string', types=TK_TYPES, result='tok?', requires=TK_REQ, modifies=['text.i', 'text.m'],
    props=['C19', 'C06'],
    ensures=[P(['C19'], 'claims',
               'text.Q[old(text.i)].cat not in %s ==> result is not None and '
               'result.text == jointext(text.Q[old(text.i):text.i]) and result.position == old(text.i) and '
               'result.cat == TC.Text and text.i > old(text.i)' % STOP),
             P(['C19'], 'run', 'forall(k, old(text.i), text.i, text.Q[k].cat not in %s)' % STOP),
             P(['C19'], 'maximal', 'text.i == len(text.Q) or text.Q[text.i].cat in %s' % STOP),
             P(['C19'], 'empty-only-at-stop-character',
               'text.Q[old(text.i)].cat in %s ==> text.i == old(text.i) and (result is None or len(result.text) == 0)' % STOP),
             A('not-none', 'result is not None')] + TK_KEEP,
    loops={0: Loop(invariant=run_inv('result', [
        A('acc-cat', 'result.cat == TC.Text'),
        A('run', 'forall(k, old(text.i), text.i, text.Q[k].cat not in %s)' % STOP)]),
        decreases='len(text.Q) - text.i')}))


# ---------------------------------------------------------------------- category counting fold (C09: at most one line break)
CNT = Function('cnt', TokSeq, IntSort(), IntSort(), IntSort(), IntSort())    # cnt(Q, c, a, b) = #{k in [a,b) | cat(Q[k]) == c}


@REG.specfun('cnt')
def _cnt(ctx, buf, c, a, b):
    Q = ctx.st.heap[buf.a['ref']]['Q'].z
    return VI(CNT(Q, c.z, a.z, b.z))


def tracked(eng):
    cc = eng.repo.enum('CC')
    return [cc['Spacer'], cc['EndOfLine'], cc['Ignored'], cc['Invalid']]


def cnt_facts(eng, st, binding, pre):
    if eng.cur is None or not eng.cur.qual.startswith('tokens.'):
        return
    from .utils_c import moved_buffers
    for ref, Q, i0, i1 in moved_buffers(st, binding, pre):
        d = simplify(i1 - i0)
        for c in tracked(eng):
            st.fact(Implies(i1 == i0 + 1, CNT(Q, c, i0, i1) == If(Tok.cat(Q[i0]) == c, 1, 0)))
            for a in st.ghost.get('anchors:' + ref, []):
                st.fact(Implies(And(a <= i0, i0 <= i1), CNT(Q, c, a, i1) == CNT(Q, c, a, i0) + CNT(Q, c, i0, i1)))
                st.fact(CNT(Q, c, a, a) == 0)
                st.fact(CNT(Q, c, a, i1) >= 0)


REG.post_hooks.append(cnt_facts)


def charlen_lemma(eng, st, binding, pre):
    """L-len (trusted lemma, induction on the slice): over a character buffer (every item one code point, requires
    clause `characters`) jointext of a slice has as many characters as the slice has items"""
    if eng.cur is None or not (eng.cur.qual.startswith('tokens.') and 'self' in binding):
        return
    obj = binding['self']
    if obj.ty != 'obj' or 'Q' not in st.heap.get(obj.a['ref'], {}):
        return
    Q = st.heap[obj.a['ref']]['Q'].z
    i0 = pre.heap[obj.a['ref']]['i'].z
    j = binding.get('j')
    from pyvc.sorts import zmin, zmax
    if j is not None and j.ty == 'tuple':
        x = sl(Q, i0 + j.a['items'][0].z, i0 + j.a['items'][1].z)
    elif j is not None and j.ty == 'int' and 'result' in binding and binding['result'].ty == 'tok' and \
            eng_callee(binding) == 'forward':
        x = sl(Q, zmin(i0, i0 + j.z), zmax(i0, i0 + j.z))
    else:
        return
    st.fact(Length(JT(x)) == Length(x))


def eng_callee(binding):
    return binding.get('$callee', 'forward')


REG.post_hooks.append(charlen_lemma)


def cnt_base(eng, st, *_):
    if eng.cur is None or not eng.cur.qual.startswith('tokens.'):
        return
    cc = eng.repo.enum('CC')
    for ref, f in st.heap.items():
        if 'Q' in f and 'i' in f:
            Q, i = f['Q'].z, f['i'].z
            for c in tracked(eng):
                st.fact(CNT(Q, c, i, i) == 0)
                for a in st.ghost.get('anchors:' + ref, []):      # head unfolding from every earlier anchor
                    if a.eq(i):
                        continue
                    st.fact(Implies(a < i, And(CNT(Q, c, a, i) == If(Tok.cat(Q[a]) == c, 1, 0) + CNT(Q, c, a + 1, i),
                                               CNT(Q, c, a + 1, i) >= 0, CNT(Q, c, a + 1, i) <= i - a - 1)))
                    eng.touch(st, a)
            for a in st.ghost.get('anchors:' + ref, []):
                if not a.eq(i):       # distinct categories count disjoint sets of positions
                    st.fact(Implies(a < i, CNT(Q, cc['Spacer'], a + 1, i) + CNT(Q, cc['EndOfLine'], a + 1, i) <= i - a - 1))
                    st.fact(Implies(a < i, CNT(Q, cc['Ignored'], a + 1, i) + CNT(Q, cc['Invalid'], a + 1, i) <= i - a - 1))


REG.entry_hooks.append(cnt_base)
REG.loop_hooks.append(cnt_base)

_BLANK = 'cnt(text, CC.Spacer, old(text.i), text.i) + cnt(text, CC.EndOfLine, old(text.i), text.i) == text.i - old(text.i)'
REG.add(Contract(
    'tokens.tokenize_spacers', types=TK_TYPES, result='tok?', requires=TK_REQ, modifies=['text.i', 'text.m'],
    props=['C19', 'C06', 'C09'],
    ensures=[P(['C19', 'C09'], 'token',
               'result is not None ==> text.i > old(text.i) and result.text == jointext(text.Q[old(text.i):text.i]) '
               'and result.position == old(text.i) and result.cat == TC.MergedSpacer'),
             P(['C09'], 'only-blanks-and-line-ends', 'result is not None ==> ' + _BLANK),
             P(['C09'], 'at-most-one-line-end',
               'result is not None ==> cnt(text, CC.EndOfLine, old(text.i), text.i) <= 1'),
             P(['C09'], 'not-before-text', 'result is not None ==> text.i == len(text.Q) or '
                                           'text.Q[text.i].cat not in (CC.Letter, CC.Other, CC.Spacer)'),
             P(['C09'], 'takes-the-line-end', 'result is not None and cnt(text, CC.EndOfLine, old(text.i), text.i) == 0 '
                                              '==> text.i == len(text.Q) or text.Q[text.i].cat != CC.EndOfLine'),
             P(['C19'], 'passes', 'result is None ==> text.i == old(text.i)'),
             A('needs-blank', 'text.Q[old(text.i)].cat not in (CC.Spacer, CC.EndOfLine) ==> result is None')] + TK_KEEP,
    loops={0: Loop(invariant=run_inv('result', [
               A('acc-cat', 'result.cat == -1'),
               A('blanks', 'cnt(text, CC.Spacer, old(text.i), text.i) == text.i - old(text.i)'),
               A('no-line-end', 'cnt(text, CC.EndOfLine, old(text.i), text.i) == 0')]),
               decreases='len(text.Q) - text.i'),
           1: Loop(invariant=run_inv('result', [
               A('acc-cat', 'result.cat == -1'), A('blank', _BLANK),
               A('one-line-end', 'cnt(text, CC.EndOfLine, old(text.i), text.i) <= 1'),
               A('line-end-taken', 'cnt(text, CC.EndOfLine, old(text.i), text.i) == 0 ==> '
                                   '(text.i == len(text.Q) or text.Q[text.i].cat not in (CC.Spacer, CC.EndOfLine))')]),
               decreases='len(text.Q) - text.i')}))

# ---------------------------------------------------------------------- names after a backslash
# `text.peek(-1)` at cursor 0 wraps onto the last *materialised* character (finding D14): the contract says so.
PESC = ('((old(text.i) >= 1 and text.Q[old(text.i) - 1].cat == CC.Escape) or '
        '(old(text.i) == 0 and old(text.m) >= 1 and text.Q[old(text.m) - 1].cat == CC.Escape))')
_NAMECH = '(text.Q[k].cat == CC.Letter or text.Q[k].text == "*")'
_CN = PESC + ' and text.Q[old(text.i)].cat == CC.Letter'
REG.add(Contract(
    'tokens.tokenize_command_name', types=TK_TYPES, result='tok?', requires=TK_REQ, modifies=['text.i', 'text.m'],
    props=['C19', 'C06', 'C02'],
    ensures=[P(['C19', 'C02'], 'claims',
               '(%s) ==> result is not None and result.text == jointext(text.Q[old(text.i):text.i]) and '
               'result.position == old(text.i) and result.cat == TC.CommandName and text.i > old(text.i)' % _CN),
             P(['C02'], 'letters-and-stars', '(%s) ==> forall(k, old(text.i), text.i, %s)' % (_CN, _NAMECH)),
             P(['C02'], 'maximal', '(%s) ==> text.i == len(text.Q) or not (text.Q[text.i].cat == CC.Letter or '
                                   'text.Q[text.i].text == "*")' % _CN),
             P(['C19'], 'passes', 'not (%s) ==> result is None and text.i == old(text.i)' % _CN)] + TK_KEEP,
    loops={0: Loop(invariant=run_inv('c', [A('started', 'text.i >= old(text.i) + 1'),
                                           A('acc-cat', 'c.cat == CC.Letter'),
                                           A('name-chars', 'forall(k, old(text.i), text.i, %s)' % _NAMECH)]),
                   decreases='len(text.Q) - text.i')}))

REG.add(Contract(
    'tokens.tokenize_punctuation_command_name', types=TK_TYPES, result='tok?', requires=TK_REQ,
    modifies=['text.i', 'text.m'], props=['C19', 'C06', 'C12', 'C17'],
    ensures=[P(['C19', 'C12'], 'token',
               'result is not None ==> result.text == jointext(text.Q[old(text.i):text.i]) and '
               'result.position == old(text.i) and result.cat == TC.PunctuationCommandName and text.i > old(text.i)'),
             P(['C12'], 'only-after-backslash', 'result is not None ==> ' + PESC),
             P(['C19'], 'passes', 'result is None ==> text.i == old(text.i)')] + TK_KEEP,
    loops={0: Loop(invariant=[A('inv', 'inv(text)'), A('m-grows', 'text.m >= old(text.m)'),
                              A('cursor-kept', 'text.i == old(text.i)'), A('after-backslash', PESC)],
                   decreases=None)}))

# every tokenizer: the token is as long as the number of characters consumed (characters are one code point each)
for _q, _cs in list(REG.contracts.items()):
    if _q.startswith('tokens.tokenize_') and _q != 'tokens.tokenize_ignore':
        for _c in _cs:
            _c.ensures.append(P(['C19', 'C13'], 'token-length',
                                'result is not None ==> len(result.text) == text.i - old(text.i)'))


def IGN(a, b):
    return ('cnt(text, CC.Ignored, %s, %s) + cnt(text, CC.Invalid, %s, %s) == (%s) - (%s)' % (a, b, a, b, b, a))


# tokenize_ignore in counting form (used by next_token)
REG.contracts['tokens.tokenize_ignore'][0].ensures.append(
    P(['C19'], 'skipped-count', IGN('old(text.i)', 'text.i')))
REG.contracts['tokens.tokenize_ignore'][0].loops[0].invariant.append(
    A('skipped-count', IGN('old(text.i)', 'text.i')))

NT_REQ = [A('inv', 'inv(text)'), WFC, A('cursor-in-range', 'text.i <= len(text.Q)'),
          A('prev-is-a-token', 'prev is None or prev.cat != CC.Comment')]
REG.add(Contract(
    'tokens.next_token', types=TK_TYPES, result='tok?', requires=NT_REQ, modifies=['text.i', 'text.m'],
    props=['C19', 'C06'],
    ensures=[A('i-lo', 'old(text.i) <= text.i'), A('i-hi', 'text.i <= len(text.Q)'),
             P(['C19'], 'token-is-a-slice',
               'result is not None ==> old(text.i) <= result.position and result.position < text.i and '
               'result.text == jointext(text.Q[result.position:text.i]) and '
               'len(result.text) == text.i - result.position'),
             P(['C19'], 'token-nonempty', 'result is not None ==> len(result.text) > 0'),
             P(['C19'], 'token-category', 'result is not None ==> result.cat in TC'),
             P(['C19'], 'only-ignorable-skipped', 'result is not None ==> ' + IGN('old(text.i)', 'result.position')),
             P(['C19'], 'exhausted', 'result is None ==> text.i == len(text.Q) and ' + IGN('old(text.i)', 'text.i'))]
    + TK_KEEP,
    loops={0: Loop(invariant=[A('inv', 'inv(text)'), A('m-grows', 'text.m >= old(text.m)'),
                              A('i-lo', 'old(text.i) <= text.i'), A('i-hi', 'text.i <= len(text.Q)'),
                              A('skipped', IGN('old(text.i)', 'text.i'))],
                   decreases='len(text.Q) - text.i')}))

# ---------------------------------------------------------------------- tokenize: the token stream partitions the characters
END = lambda t: '(%s.position + len(%s.text))' % (t, t)
_TOKOK = ('len(%(t)s.text) > 0 and %(t)s.cat in TC and 0 <= %(t)s.position and ' + END('%(t)s') + ' <= len(text.Q) and '
          '%(t)s.text == jointext(text.Q[%(t)s.position:' + END('%(t)s') + '])')
_LAST = '_out[len(_out) - 1]'
REG.add(Contract(
    'tokens.tokenize', types={'text': 'Buffer'}, result='seq[tok]', generator=True,
    requires=[A('inv', 'inv(text)'), WFC, A('fresh-buffer', 'text.i == 0')],
    modifies=['text.i', 'text.m'], props=['C19', 'C06', 'C13'],
    ensures=[
        P(['C19', 'C13'], 'tokens-are-nonempty-slices-at-their-offsets',
          'forall(k, 0, len(result), %s)' % (_TOKOK % {'t': 'result[k]'})),
        P(['C19'], 'tokens-in-order-gaps-ignorable',
          'forall(k, 0, len(result) - 1, %s <= result[k + 1].position and %s)'
          % (END('result[k]'), IGN(END('result[k]'), 'result[k + 1].position'))),
        P(['C19'], 'head-gap-ignorable', 'len(result) > 0 ==> ' + IGN('0', 'result[0].position')),
        P(['C19'], 'tail-gap-ignorable', 'len(result) > 0 ==> ' + IGN(END('result[len(result) - 1]'), 'len(text.Q)')),
        P(['C19'], 'no-token-only-if-all-ignorable', 'len(result) == 0 ==> ' + IGN('0', 'len(text.Q)')),
        A('consumed', 'text.i == len(text.Q)')],
    loops={0: Loop(invariant=[
        A('inv', 'inv(text)'), A('cursor-in-range', 'text.i <= len(text.Q)'),
        A('yielded-ok', 'forall(k, 0, len(_out), %s)' % (_TOKOK % {'t': '_out[k]'})),
        A('yielded-ordered', 'forall(k, 0, len(_out) - 1, %s <= _out[k + 1].position and %s)'
          % (END('_out[k]'), IGN(END('_out[k]'), '_out[k + 1].position'))),
        A('pending-ok', 'current_token is not None ==> %s and %s == text.i'
          % (_TOKOK % {'t': 'current_token'}, END('current_token'))),
        A('pending-after-last', 'current_token is not None and len(_out) > 0 ==> %s <= current_token.position and %s'
          % (END(_LAST), IGN(END(_LAST), 'current_token.position'))),
        A('pending-first', 'current_token is not None and len(_out) == 0 ==> ' + IGN('0', 'current_token.position')),
        A('head-gap', 'len(_out) > 0 ==> ' + IGN('0', '_out[0].position')),
        A('done-tail', 'current_token is None and len(_out) > 0 ==> text.i == len(text.Q) and '
          + IGN(END(_LAST), 'len(text.Q)')),
        A('done-empty', 'current_token is None and len(_out) == 0 ==> text.i == len(text.Q) and '
          + IGN('0', 'len(text.Q)'))],
        decreases='len(text.Q) - text.i + (1 if current_token is not None else 0)')}))
