"""Well-formedness of the token stream (`wft`) is *established* by the tokenizer contracts, not assumed:
every tokenizer ensures the shape of its token's text, next_token and tokenize carry it, and tex.read proves the
readers' precondition from tokenize's postcondition."""
import z3
from z3 import (Function, IntSort, BoolSort, Length, If, And, Or, Not, Implies, Concat, Unit, Empty, IntVal, BoolVal,
                SubSeq, simplify)

from pyvc.contracts import Contract, ClassView, P, A, G, Raises, Loop
from pyvc.sorts import Str, Tok, TokSeq, pystr
from pyvc.values import (Val, VI, VB, VS, VNone, VTok, strz, Unsupported, fresh)
from pyvc import ops
from pyvc.ops import str_strip
from .base import REG, JT
from .tree import NW
from . import tokens_c, reader_c, data_c
from .tokens_c import CATC, catc_z, unfold_catc, CNT, IGN, C19, WFC
from .reader_c import CLEANSRC

NAMECH = Function('namechars', Str, BoolSort())      # every character is an ASCII letter or '*'
BLANKS = ' \t\n\r'
LETTERS = 'abcdefghijklmnopqrstuvwxyzABCDEFGHIJKLMNOPQRSTUVWXYZ'


def tokshape_z(eng, t):
    """text shape of one token by category (what the readers rely on)"""
    TC = eng.repo.enum('TC')
    tx, ct = Tok.text(t), Tok.cat(t)
    fs = [Length(tx) > 0, ct >= TC['Escape'], ct <= max(TC.values()),
          Implies(ct == TC['Escape'], tx == pystr('\\')),
          Implies(ct == TC['MergedSpacer'], NW(tx) == Empty(Str)),
          Implies(Or(ct == TC['CommandName'], ct == TC['PunctuationCommandName']),
                  And(NW(tx) == tx, str_strip(tx) == tx))]
    for cls in data_c.GROUPS + data_c.MATHS:
        b, e = eng.repo.class_attr(cls, 'begin'), eng.repo.class_attr(cls, 'end')
        tb, te = int(eng.repo.class_attr(cls, 'token_begin')), int(eng.repo.class_attr(cls, 'token_end'))
        fs.append(Implies(ct == tb, tx == pystr(b)))
        fs.append(Implies(ct == te, tx == pystr(e)))
    return And(*fs)


TSHAPE = Function('tokshape', Tok, BoolSort())


def unfold_shape(eng, st, binding=None):
    st.ghost['$unfold_shape'] = True


@REG.specfun('tokshape')
def _tokshape(ctx, t):
    """opaque outside the tokenizers and the stage link (hide what the proof does not need)"""
    if t.ty == 'opt':
        t = t.a['some']
    if t.ty != 'tok':
        return VB(True)
    if ctx.st.ghost.get('$unfold_shape'):
        ctx.st.fact(TSHAPE(t.z) == tokshape_z(ctx.engine, t.z))
    return VB(TSHAPE(t.z))


def char_axioms(st, ch):
    """definitional facts about a one-character string: NW on it, membership in the name alphabet"""
    blank = Or(*[ch == pystr(c) for c in BLANKS])
    st.fact(Implies(Length(ch) == 1, And(Implies(blank, NW(ch) == Empty(Str)), Implies(Not(blank), NW(ch) == ch))))
    st.fact(NAMECH(ch) == Or(*[ch == pystr(c) for c in LETTERS + '*']))
    name_lemma(st, ch)


def name_lemma(st, s):
    # lemma (trusted; about str.strip and the blank characters): a string of ASCII letters and '*' has no blank
    # characters and is unchanged by strip()
    st.fact(Implies(NAMECH(s), And(NW(s) == s, str_strip(s) == s)))


_orig_catc = REG.specfuns['catc']


def _catc_with_axioms(ctx, ch):
    v = _orig_catc(ctx, ch)
    if ctx.st.ghost.get('$unfold_catc'):
        char_axioms(ctx.st, strz(ch))
    return v


REG.specfuns['catc'] = _catc_with_axioms


def concat_images(eng, st, b, pre):
    """Token concatenation: homomorphic images of the text equation (NW) and of the name-alphabet fold"""
    res, a, o = b.get('result'), b.get('self'), b.get('other')
    if res is None or a is None or o is None or res.ty != 'tok':
        return
    x, y, r = strz(a), strz(o), Tok.text(res.z)
    st.fact(NW(r) == Concat(NW(x), NW(y)))
    st.fact(NAMECH(r) == And(NAMECH(x), NAMECH(y)))
    st.fact(NW(Empty(Str)) == Empty(Str))
    st.fact(NAMECH(Empty(Str)))
    name_lemma(st, r)


for _q in ('utils.Token.__add__', 'utils.Token.__iadd__'):
    for _c in REG.contracts[_q]:
        _c.hooks.append(concat_images)


def jt_unit_image(eng, st, b, pre):
    """forward(1): the returned token's text is the character's text (connects the per-character axioms)"""
    return


# ---------------------------------------------------------------------- every tokenizer ensures the shape of its token
_NEED_TABLE = ('tokens.tokenize_symbols', 'tokens.tokenize_math_sym_switch', 'tokens.tokenize_math_asym_switch', 'tokens.tokenize_spacers', 'tokens.tokenize_command_name')
SHAPE = P(['C19', 'C08', 'C06'], 'token-shape', 'result is not None ==> tokshape(result)')
for _q, _cs in list(REG.contracts.items()):
    if _q.startswith('tokens.tokenize_') and _q not in ('tokens.tokenize_ignore', 'tokens.tokenize_string'):
        for _c in _cs:
            _c.ensures.append(SHAPE)
            # the category table is unfolded only where a shape depends on it (a character's category fixes the text)
            if _q in _NEED_TABLE and unfold_catc not in _c.init_hooks:
                _c.init_hooks.append(unfold_catc)
            _c.init_hooks.append(unfold_shape)
# the string tokenizer may return an empty token at a stop character (next_token never calls it there)
for _c in REG.contracts['tokens.tokenize_string']:
    _c.ensures.append(P(['C19', 'C08'], 'token-shape', 'result is not None and len(result.text) > 0 ==> tokshape(result)'))
    _c.init_hooks.append(unfold_shape)

# loop invariants that carry the shapes
_sp = REG.contracts['tokens.tokenize_spacers'][0]
for _k in (0, 1):
    _sp.loops[_k].invariant.append(A('blank-only', 'NW(result.text) == ""'))
_cn = REG.contracts['tokens.tokenize_command_name'][0]
_cn.loops[0].invariant.append(A('name-alphabet', 'namech(c.text)'))


@REG.specfun('namech')
def _namech(ctx, s):
    name_lemma(ctx.st, strz(s))
    return VB(NAMECH(strz(s)))


def table_facts_hook(eng, what, payload, st):
    """an element of the constant table PUNCTUATION_COMMANDS has no whitespace (computed over the real table)"""
    if what == 'seq-item':
        xs, k, item = payload
        tbl = xs.a.get('table')
        if tbl and all(not any(ch.isspace() for ch in s) and s == s.strip() for s in tbl):
            st.fact(And(NW(item.z) == item.z, str_strip(item.z) == item.z))
    return None


REG.attr_hooks.append(table_facts_hook)

# ---------------------------------------------------------------------- next_token / tokenize carry the shapes
_nt = REG.contracts['tokens.next_token'][0]
_NAMES = '(TC.CommandName, TC.PunctuationCommandName)'
_nt.ensures += [
    SHAPE,
    P(['C08', 'C02'], 'escape-comes-from-a-backslash',
      'result is not None and result.cat == TC.Escape ==> text.Q[result.position].cat == CC.Escape and '
      'text.i == result.position + 1'),
    P(['C08', 'C02'], 'after-escape-letter-or-ignorable-or-end',
      'result is not None and result.cat == TC.Escape ==> text.i == len(text.Q) or '
      'text.Q[text.i].cat in (CC.Letter, CC.Ignored, CC.Invalid)'),
    P(['C08', 'C02'], 'letter-after-backslash-is-a-name',
      'old(text.i) >= 1 and old(text.i) < len(text.Q) and text.Q[old(text.i) - 1].cat == CC.Escape and '
      'text.Q[old(text.i)].cat == CC.Letter ==> result is not None and result.cat in ' + _NAMES),
]
_tk = REG.contracts['tokens.tokenize'][0]
_NOIGN_C = 'cnt(text, CC.Ignored, 0, len(text.Q)) + cnt(text, CC.Invalid, 0, len(text.Q)) == 0'
_tk.ensures += [
    P(['C19', 'C08', 'C06'], 'token-shapes', 'forall(k, 0, len(result), tokshape(result[k]))'),
    P(['C08', 'C02'], 'backslash-is-followed-by-a-name',
      '%s ==> forall(k, 0, len(result) - 1, implies(result[k].cat == TC.Escape, result[k + 1].cat in %s))'
      % (_NOIGN_C, _NAMES)),
]
_tk.loops[0].invariant += [
    A('shapes', 'forall(k, 0, len(_out), tokshape(_out[k]))'),
    A('pending-shape', 'current_token is not None ==> tokshape(current_token)'),
    A('names', '%s ==> forall(k, 0, len(_out) - 1, implies(_out[k].cat == TC.Escape, _out[k + 1].cat in %s))'
      % (_NOIGN_C, _NAMES)),
    A('pending-after-escape', '%s and current_token is not None and len(_out) > 0 and _out[len(_out) - 1].cat == TC.Escape '
                              '==> current_token.cat in %s' % (_NOIGN_C, _NAMES)),
    A('pending-escape', 'current_token is not None and current_token.cat == TC.Escape ==> '
                        'text.Q[current_token.position].cat == CC.Escape and text.i == current_token.position + 1 and '
                        '(text.i == len(text.Q) or text.Q[text.i].cat in (CC.Letter, CC.Ignored, CC.Invalid))'),
]


def split_count_at_cursor(eng, st, binding):
    """count fold: cnt(0,n) == cnt(0,i) + cnt(i,i+1) + cnt(i+1,n) with the unit definition at the cursor"""
    buf = binding['text']
    f = st.heap[buf.a['ref']]
    Q, i, n = f['Q'].z, f['i'].z, Length(f['Q'].z)
    cc = eng.repo.enum('CC')
    for c in (cc['Ignored'], cc['Invalid']):
        st.fact(Implies(And(0 <= i, i < n), And(
            CNT(Q, c, 0, n) == CNT(Q, c, 0, i) + CNT(Q, c, i, i + 1) + CNT(Q, c, i + 1, n),
            CNT(Q, c, i, i + 1) == If(Tok.cat(Q[i]) == c, 1, 0),
            CNT(Q, c, 0, i) >= 0, CNT(Q, c, i + 1, n) >= 0)))
    eng.touch(st, i)


_nt.pre_hooks.append(split_count_at_cursor)
