def load_all():
    from . import base, utils_c
    return base.REG
