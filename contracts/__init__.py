def load_all():
    from . import base, utils_c, tokens_c
    return base.REG
