def load_all():
    from . import base, utils_c, tokens_c, tree, data_c, texargs_c, reader_c, top_c
    return base.REG
