import os


def load_all():
    from . import base, utils_c, tokens_c, tree, data_c, texargs_c, reader_c
    if os.environ.get('VERIF_NO_WFT') != '1':
        from . import wft_c
    from . import top_c
    from . import views_c
    return base.REG
