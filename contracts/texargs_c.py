"""Contracts for data.TexArgs (C18): a list of groups/commands, view `items`.

The parallel bookkeeping list `.all` (which also keeps whitespace strings) is modelled only as far as its lookups can
raise: it is assumed (class invariant, not re-proved) to hold every element the argument list had at function entry,
and it holds what the call has added so far; `index` / `remove` of anything else raise ValueError (that is how D24
shows up deductively).  Its order and its whitespace entries are not modelled; `pop` returns an element textually
equal to the one that was looked up.  The bounded breadth-first exploration of C18 covers the rest.
"""
import z3
from z3 import (Function, IntSort, BoolSort, Length, If, And, Or, Not, Implies, Concat, Unit, Empty, IntVal, BoolVal,
                SubSeq, simplify)

from pyvc.contracts import Contract, ClassView, P, A, G, Raises, Loop
from pyvc.sorts import Str, Tok, E, ESeq, pystr, norm_index
from pyvc.values import (Val, VI, VB, VS, VNone, VTok, VOpt, VTuple, VSeq, VList, VE, lift, strz, Unsupported, fresh)
from pyvc import ops
from pyvc.ops import ser
import pyvc.calls as _calls
from .base import REG
from .tree import kind, isbare, kind_of, snoc_facts as _sf
from . import tree as _tree
from .data_c import GROUPS


def snoc(st, old, x, new):
    _tree.snoc_facts(st, old, x, new)


class TexArgsRep:
    def load(self, eng, st, obj, a):
        if a == 'all':
            return [('val', st, Val('alllist', None, obj=obj))]
        return None

    def store(self, eng, st, obj, a, v):
        if a == 'all':
            return [('fall', st)]
        return None


REG.views['TexArgs'].repmap = TexArgsRep()


def texargs_hook(eng, what, payload, st):
    if what == 'getattr':
        v, attr, node = payload
        if v.ty == 'alllist':
            return [('val', st, Val('func', None, allmethod=attr, bound=v))]
    if what == 'builtinmethod':
        base, meth, bound, args, kwargs = payload
        if base == 'builtins.list' and bound.ty == 'obj' and 'items' in st.heap.get(bound.a['ref'], {}):
            items = st.heap[bound.a['ref']]['items']
            if meth == '__init__':
                st.heap[bound.a['ref']]['items'] = VSeq(Empty(ESeq), 'E')
                return [('val', st, VNone)]
            if meth == '__getitem__':
                k = args[0]
                if k.ty == 'slice':
                    outs = eng.with_op(st, lambda g: ops.slice_of(items, k, g))
                    for o in outs:
                        if o[0] == 'val':        # a slice of a list of arguments is a list of arguments
                            o[1].fact(Implies(_tree.AA(items.z), _tree.AA(o[2].z)))
                    return outs
                eng.touch(st, If(k.z < 0, k.z + Length(items.z), k.z))
                return eng.with_op(st, lambda g: ops.index(items, k, g))
            if meth in ('insert', 'remove', 'pop', 'reverse', 'clear'):
                def store(newv, st_=None):
                    (st_ if st_ is not None else st).heap[bound.a['ref']]['items'] = newv
                return eng.seq_method(items, meth, args, st, store)
    if what == 'builtin':
        name, args, kwargs, node = payload
        if name == 'len' and args and args[0].ty == 'obj' and 'items' in st.heap.get(args[0].a['ref'], {}):
            return [('val', st, VI(Length(st.heap[args[0].a['ref']]['items'].z)))]
    return None


REG.attr_hooks.insert(0, texargs_hook)


def _all_text(v):
    return ser(v.z) if v.ty == 'E' else strz(v)


def _lookup_in_all(eng, fv, x, st):
    """`x` is looked up in the bookkeeping list by textual equality.  The list is known to hold (class invariant,
    assumed at entry: every element of the argument list occurs in `.all`) the items the object had at function entry,
    plus whatever this call has added to it so far.  -> (state where the lookup succeeds, state where it cannot be
    shown to: ValueError)"""
    from pyvc.spec import QBool
    obj = fv.a['bound'].a['obj']
    ref = obj.a['ref']
    added = st.ghost.get('$all_added:' + ref, [])
    tx = _all_text(x)
    items0 = eng.entry.heap.get(ref, {}).get('items') if eng.entry is not None else None
    fail = st.fork()
    for y in added:
        fail.assume(_all_text(y) != tx)
    if items0 is not None and items0.ty == 'seq':
        from pyvc.engine import _index_terms
        z0 = items0.z
        # "no element of the entry list reads like x", instantiated where x was read from the current list (which is one
        # insertion or removal away from the entry list) and at both ends
        points = [IntVal(0), Length(z0) - 1]
        for t in list(_index_terms(tx)) + list(st.interest.values()):
            points += [t, simplify(t - 1), simplify(t + 1)]
        for t in points:
            fail.assume(Implies(And(0 <= t, t < Length(z0)), ser(z0[t]) != tx))
        eng.assume_clause(fail, [QBool(BoolVal(True), IntVal(0), Length(z0), lambda j, z=z0, tx=tx: ser(z[j]) != tx)])
    from pyvc.smt import quick_sat
    if not quick_sat(fail.hyps(), 500):
        fail = None
    return st, fail


def _call_allmethod(eng, fv, args, kwargs, st, node):
    m = fv.a['allmethod']
    ref = fv.a['bound'].a['obj'].a['ref']
    if m in ('append', 'insert'):
        x = args[-1]
        st.ghost['$all_added:' + ref] = st.ghost.get('$all_added:' + ref, []) + [x]
        return [('val', st, VNone)]
    if m in ('clear', 'reverse'):
        return [('val', st, VNone)]
    if m == 'remove':
        ok, fail = _lookup_in_all(eng, fv, args[0], st)
        outs = [('val', ok, VNone)]
        if fail is not None:
            outs.append(('raise', fail, 'ValueError'))
        return outs
    if m == 'index':
        ok, fail = _lookup_in_all(eng, fv, args[0], st)
        ok.ghost['$all_lookup'] = args[0]
        r = fresh('all_idx', IntSort())
        ok.assume(r >= 0)
        outs = [('val', ok, VI(r))]
        if fail is not None:
            outs.append(('raise', fail, 'ValueError'))
        return outs
    if m == 'pop':
        x = st.ghost.get('$all_lookup')
        e = fresh('all_popped', E)
        if x is not None and x.ty == 'E':
            st.assume(ser(e) == ser(x.z))
            st.assume(kind(e) == kind(x.z))
        return [('val', st, VE(e))]
    raise Unsupported('method %s of TexArgs.all' % m)


_orig_call_value = _calls.CallMixin.call_value


def _call_value(self, fv, args, kwargs, st, node):
    if fv.ty == 'func' and 'allmethod' in fv.a:
        return _call_allmethod(self, fv, args, kwargs, st, node)
    return _orig_call_value(self, fv, args, kwargs, st, node)


_calls.CallMixin.call_value = _call_value

for _q in ('data.TexArgs.__coerce', 'data.TexGroup.parse'):
    REG.inline.add(_q)


@REG.specfun('KSTR')
def _kstr(ctx):
    return VI(kind_of('str'))


@REG.specfun('KTOK')
def _ktok(ctx):
    return VI(kind_of('token'))


@REG.specfun('clampi')
def _clampi(ctx, i, n):
    return VI(norm_index(i.z, n.z))


@REG.specfun('posi')
def _posi(ctx, i, n):
    return VI(If(i.z < 0, i.z + n.z, i.z))


@REG.specfun('wellgroup')
def _wellgroup(ctx, s):
    z = strz(s)
    conds = []
    for cls in GROUPS:
        b, e_ = ctx.engine.repo.class_attr(cls, 'begin'), ctx.engine.repo.class_attr(cls, 'end')
        conds.append(And(z3.PrefixOf(pystr(b), z), z3.SuffixOf(pystr(e_), z)))
    return VB(Or(*conds))


@REG.specfun('removed_first')
def _removed_first(ctx, old, item, new):
    """new is old without its first element that is textually equal to item (list.remove with TexExpr.__eq__)"""
    rec = ctx.st.ghost.get('$removed_at')
    r = rec.z if rec is not None else fresh('rm_at', IntSort())
    n = Length(old.z)
    ctx.engine.touch(ctx.st, r)
    return VB(And(0 <= r, r < n, ser(old.z[r]) == ser(item.z),
                  new.z == Concat(SubSeq(old.z, 0, r), SubSeq(old.z, r + 1, n - r - 1))))


_AA = [A('groups-or-commands', 'allargs(self.items)')]
_AT = 'clampi(i, len(old(self.items)))'

REG.contracts.pop('data.TexArgs.__init__', None)
REG.contracts.pop('data.TexArgs.append', None)
REG.contracts.pop('data.TexArgs.__getitem__', None)
REG.contracts.pop('data.TexArgs.__str__', None)

REG.add(Contract('data.TexArgs.extend', types={'self': 'TexArgs', 'args': 'elist'}, modifies=['self.items'],
                 props=['C18', 'C15'], requires=[A('groups-or-commands', 'allargs(eseq(args))')] + _AA,
                 ensures=[P(['C18', 'C15'], 'list-extend', 'self.items == concat(old(self.items), eseq(args))')] + _AA,
                 loops={0: Loop(invariant=[A('prefix', 'self.items == concat(old(self.items), eseq(args)[:_k])'),
                                           A('bound', '_k <= len(eseq(args))'),
                                           A('groups-or-commands', 'allargs(self.items)')],
                                modifies=['self.items'])}))
REG.add(Contract('data.TexArgs.__init__', case='list', types={'self': 'TexArgs', 'args': 'elist'},
                 modifies=['self.items'], props=['C18'],
                 requires=[A('groups-or-commands', 'allargs(eseq(args))')],
                 ensures=[P(['C18'], 'items', 'self.items == eseq(args)')] + _AA))
REG.add(Contract('data.TexArgs.__init__', case='copy', types={'self': 'TexArgs', 'args': 'TexArgs'},
                 modifies=['self.items'], props=['C18'],
                 requires=[A('groups-or-commands', 'allargs(args.items)')],
                 ensures=[P(['C18'], 'items', 'self.items == args.items')] + _AA,
                 note='the argument is read as its item list (iteration of the list subclass)'))

REG.add(Contract(
    'data.TexArgs.insert', case='expr', types={'self': 'TexArgs', 'i': 'int', 'arg': 'E'}, modifies=['self.items'],
    props=['C18', 'C15'], requires=_AA + [A('not-a-text-node', 'kind(arg) != K("TexText") and kind(arg) != KSTR() and kind(arg) != KTOK()')],
    ensures=[P(['C18', 'C15'], 'list-insert',
               'isarg(arg) ==> self.items == concat(old(self.items)[:%s], unit(arg), old(self.items)[%s:])' % (_AT, _AT)),
             P(['C18'], 'non-arguments-are-not-listed', 'not isarg(arg) ==> self.items == old(self.items)'),
             A('groups-or-commands', 'allargs(self.items)')]))
REG.add(Contract(
    'data.TexArgs.insert', case='string', types={'self': 'TexArgs', 'i': 'int', 'arg': 'str'}, modifies=['self.items'],
    props=['C18', 'C15'], requires=_AA,
    raises={'TypeError': Raises('not arg.isspace() and not wellgroup(arg)', kind='P', props=['C18'],
                                ensures=[P(['C18'], 'rejected-without-change', 'self.items == old(self.items)')])},
    ensures=[P(['C18'], 'whitespace-is-not-listed', 'arg.isspace() ==> self.items == old(self.items)'),
             P(['C18'], 'coerced-group-inserted',
               'not arg.isspace() ==> len(self.items) == len(old(self.items)) + 1 and ser(self.items[%s]) == arg and '
               'self.items[:%s] == old(self.items)[:%s] and self.items[%s + 1:] == old(self.items)[%s:]'
               % (_AT, _AT, _AT, _AT, _AT)),
             A('coerced-is-a-group', 'not arg.isspace() ==> isarg(self.items[%s]) and '
                                     '(arg.startswith("{") ==> kind(self.items[%s]) == K("BraceGroup"))' % (_AT, _AT)),
             A('groups-or-commands', 'allargs(self.items)')]))

REG.add(Contract('data.TexArgs.remove', case='expr', types={'self': 'TexArgs', 'item': 'E'}, modifies=['self.items'],
                 props=['C18', 'C15'],
                 requires=_AA + [A('not-a-text-node', 'kind(item) != K("TexText") and kind(item) != KSTR() and kind(item) != KTOK()')],
                 raises={'ValueError': Raises(None, kind='P', props=['C18'],
                                              ensures=[A('unchanged', 'self.items == old(self.items)'),
                                                       P(['C18'], 'only-if-absent',
                                                         'forall(j, 0, len(self.items), ser(self.items[j]) != ser(item))')])},
                 ensures=[P(['C18', 'C15'], 'removes-first-equal-element',
                            'removed_first(old(self.items), item, self.items)')]))
REG.add(Contract('data.TexArgs.pop', types={'self': 'TexArgs', 'i': 'int'}, result='E', modifies=['self.items'],
                 props=['C18', 'C15'], requires=_AA,
                 raises={'IndexError': Raises('i < -len(self.items) or i >= len(self.items)', kind='P', props=['C18'],
                                              ensures=[A('unchanged', 'self.items == old(self.items)')])},
                 ensures=[P(['C18', 'C15'], 'list-pop',
                            'self.items == concat(old(self.items)[:posi(i, len(old(self.items)))], '
                            'old(self.items)[posi(i, len(old(self.items))) + 1:])'),
                          P(['C18'], 'returns-the-element-text',
                            'ser(result) == ser(old(self.items)[posi(i, len(old(self.items)))])')]))
REG.add(Contract('data.TexArgs.reverse', types={'self': 'TexArgs'}, modifies=['self.items'], props=['C18'],
                 ensures=[P(['C18'], 'list-reverse', 'len(self.items) == len(old(self.items)) and '
                            'forall(j, 0, len(self.items), self.items[j] == old(self.items)[len(self.items) - 1 - j])')]))
REG.add(Contract('data.TexArgs.clear', types={'self': 'TexArgs'}, modifies=['self.items'], props=['C18'],
                 ensures=[P(['C18'], 'list-clear', 'len(self.items) == 0')]))


def _snoc_expr(eng, st, b, pre):
    snoc(st, pre.heap[b['self'].a['ref']]['items'].z, b['arg'].z, st.heap[b['self'].a['ref']]['items'].z)


def _snoc_str(eng, st, b, pre):
    old = pre.heap[b['self'].a['ref']]['items'].z
    new = st.heap[b['self'].a['ref']]['items'].z
    g = new[Length(old)]
    st.assume(isbare(g))          # ghost: an argument built from a bare token
    snoc(st, old, g, new)


REG.add(Contract('data.TexArgs.append', case='expr', types={'self': 'TexArgs', 'arg': 'E'}, modifies=['self.items'],
                 props=['C18'], requires=[A('group-or-command', 'isarg(arg)')] + _AA,
                 ensures=[P(['C18'], 'appended', 'self.items == concat(old(self.items), unit(arg))')] + _AA,
                 hooks=[_snoc_expr]))
REG.add(Contract('data.TexArgs.append', case='brace-string', types={'self': 'TexArgs', 'arg': 'str'},
                 modifies=['self.items'], props=['C18'],
                 requires=[A('brace-delimited', 'arg.startswith("{") and arg.endswith("}") and len(arg) >= 2'),
                           A('not-blank', 'not arg.isspace()')] + _AA,
                 ensures=[P(['C18'], 'one-more', 'len(self.items) == len(old(self.items)) + 1 and '
                            'self.items[:len(old(self.items))] == old(self.items) and '
                            'ser(self.items[len(old(self.items))]) == arg and '
                            'kind(self.items[len(old(self.items))]) == K("BraceGroup")')] + _AA,
                 hooks=[_snoc_str]))
REG.add(Contract('data.TexArgs.__getitem__', case='int', types={'self': 'TexArgs', 'key': 'int'}, result='E',
                 props=['C18'],
                 raises={'IndexError': Raises('key < -len(self.items) or key >= len(self.items)', kind='P', props=['C18'])},
                 ensures=[P(['C18'], 'item', 'result == self.items[key if key >= 0 else len(self.items) + key]')]))
REG.add(Contract('data.TexArgs.__getitem__', case='slice', types={'self': 'TexArgs', 'key': 'slice[int?,int?]'},
                 result='TexArgs', props=['C18', 'C14'], requires=_AA,
                 ensures=[P(['C18', 'C14'], 'items', 'result.items == self.items[key.start:key.stop]')]))
REG.add(Contract('data.TexArgs.__str__', types={'self': 'TexArgs'}, result='str', props=['C18', 'C01', 'C08'],
                 ensures=[P(['C18', 'C01', 'C08'], 'concatenation', 'result == SL(self.items)')]))

from .data_c import head_unfold
for _c in REG.contracts['data.TexArgs.__getitem__']:
    _c.hooks.append(head_unfold)
