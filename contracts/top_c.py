"""Contracts for TexSoup/tex.py and TexSoup/__init__.py: the composition categorize -> tokenize -> read_tex,
with the linking lemmas that connect the stage contracts (DESIGN 3.7)."""
import ast

import z3
from z3 import (Function, IntSort, BoolSort, Length, If, And, Or, Not, Implies, Concat, Unit, Empty, IntVal, BoolVal,
                SubSeq, simplify)

from pyvc.contracts import Contract, ClassView, P, A, G, Raises, Loop
from pyvc.sorts import Str, Tok, TokSeq, E, ESeq, StrSeq, NONE_CAT, pystr
from pyvc.values import (Val, VI, VB, VS, VNone, VTok, VOpt, VTuple, VSeq, VList, VE, lift, strz, Unsupported, fresh)
from pyvc.spec import QBool
from pyvc import ops
from .base import REG, JT
from .utils_c import sl
from .tree import SL, TL, NW, sl_facts
from .reader_c import CLN, CLEANSRC, ALLOWED, wft_z
from . import data_c

NOIGN = Function('noign', Str, BoolSort())        # the string has no NUL/DEL (characters of category Ignored/Invalid)
JS = Function('joinstr', StrSeq, Str)             # ''.join(itertools.chain(*chunks)): all characters of all chunks


@REG.specfun('noign')
def _noign(ctx, s):
    return VB(NOIGN(strz(s)))


@REG.specfun('joinstr')
def _joinstr(ctx, xs):
    return VS(JS(xs.z))


def chain_join_hook(eng, n, st):
    """''.join(itertools.chain(*tex)): the characters of all chunks in order"""
    if isinstance(n, ast.Call) and ast.unparse(n) == "''.join(itertools.chain(*tex))":
        outs = []
        for o in eng.ev(ast.Name(id='tex', ctx=ast.Load()), st):
            if o[0] == 'raise':
                outs.append(o)
                continue
            v = o[2]
            if v.ty == 'seq' and v.a['elem'] == 'str':
                outs.append(('val', o[1], VS(JS(v.z))))
            else:
                raise Unsupported('chunks of type ' + v.ty)
        return outs
    return None


REG.call_hooks.insert(0, chain_join_hook)


def stage_link(eng, st, res):
    """Linking facts between the stage contracts, added after tokenize() has been applied in tex.read:

    M4   (trusted, induction on the number of tokens): tokens that are increasing slices of the characters with
         only Ignored/Invalid characters in the gaps concatenate to the source when it has no such characters.
    NOIGN (definition): noign(s) means that no character of s has category Ignored or Invalid; categorize's clause
         `only-NUL-and-DEL-are-ignorable` proves that these are exactly NUL and DEL.
    WFT  (proved here): the readers' precondition on the token stream is an obligation discharged from tokenize's
         postconditions `token-shapes` and `backslash-is-followed-by-a-name` (contracts/wft_c.py)."""
    if res.a.get('produced_by') != 'tokens.tokenize':
        return
    T = st.heap[res.a['ref']]['Q'].z
    chars = res.a['input']
    src, cbuf = None, None
    while chars is not None and src is None:
        src = chars.a.get('source')
        if cbuf is None and chars.ty == 'obj':
            cbuf = chars
        chars = chars.a.get('input')
    if src is None:
        return
    st.fact(CLEANSRC(T) == NOIGN(src))
    st.fact(Implies(NOIGN(src), JT(sl(T, 0, Length(T))) == src))
    wq = QBool(BoolVal(True), IntVal(0), Length(T), lambda k, T=T: wft_z(eng, T, k))
    if cbuf is None or 'contracts.wft_c' not in __import__('sys').modules:
        eng.assume_clause(st, [wq])        # (only without the WFT contracts loaded: the link is then an assumption)
        st.ghost['$assumed-wft'] = True
        return
    from .tokens_c import CNT
    cc = eng.repo.enum('CC')
    C = st.heap[cbuf.a['ref']]['Q'].z
    st.fact(NOIGN(src) == (CNT(C, cc['Ignored'], 0, Length(C)) + CNT(C, cc['Invalid'], 0, Length(C)) == 0))
    from .reader_c import nw_literals
    st.fact(And(*nw_literals(eng)))
    eng.oblige('%s@stage-link.token-stream' % (eng.cur.key if eng.cur else 'tex.read'), st, eng.goal_of([wq], st),
               kind='P', props=['C08', 'C01', 'C02', 'C06'])
    eng.assume_clause(st, [wq])


from .utils_c import STAGE_HOOKS
STAGE_HOOKS.append(stage_link)

_ROOT = 'result[0]'
for _case, _ty, _src in (('str', 'str', 'tex'), ('chunks', 'seq[str]', 'joinstr(tex)')):
    REG.add(Contract(
        'tex.read', case=_case, types={'tex': _ty, 'skip_envs': 'seq[str]', 'tolerance': 'int'},
        result='tuple[UExpr:data.TexEnv,str]', props=['C01', 'C06', 'C08', 'C17'], raises=dict(ALLOWED),
        ensures=[P(['C17'], 'source-is-the-flattened-input', 'result[1] == %s' % _src),
                 A('root', '%s.name == "[tex]" and len(%s.args.items) == 0' % (_ROOT, _ROOT)),
                 P(['C01', 'C08'], 'exact',
                   'tolerance == 0 and noign(result[1]) and TL(%s.contents) ==> SL(%s.contents) == result[1]'
                   % (_ROOT, _ROOT)),
                 P(['C08'], 'non-blank',
                   'tolerance == 0 and noign(result[1]) and CLN(%s.contents) ==> NW(SL(%s.contents)) == NW(result[1])'
                   % (_ROOT, _ROOT))]))

import sys as _sys
if 'contracts.wft_c' in _sys.modules:      # tokshape is unfolded where the readers' precondition is established
    for _c in REG.contracts['tex.read']:
        _c.init_hooks.append(_sys.modules['contracts.wft_c'].unfold_shape)

# the root environment prints its contents only
REG.add(Contract('data.TexEnv.__str__', case='root', types={'self': 'UExpr:data.TexEnv'}, result='str',
                 requires=[A('root', 'self.name == "[tex]"')],
                 ensures=[P(['C01', 'C08'], 'ser', 'result == SL(self.contents)')]))
for _q in ('data.TexEnv.__init__',):
    REG.inline.add(_q)


# ---------------------------------------------------------------------- TexNode wrapper and the public entry point
REG.view(ClassView('data.TexNode', 'TexNode', {'expr': 'UExpr', 'parent': 'any?', 'char_to_line': 'any?'}))
REG.add(Contract('data.TexNode.__init__', case='with-src', types={'self': 'TexNode', 'expr': 'UExpr', 'src': 'str'},
                 modifies=['self.expr', 'self.parent', 'self.char_to_line'], props=['C06', 'C04'],
                 ensures=[P(['C04'], 'wraps', 'self.expr is expr'), P(['C04'], 'no-parent', 'self.parent is None')]))
for _case, _ty, _src in (('str', 'str', 'tex_code'), ('chunks', 'seq[str]', 'joinstr(tex_code)')):
    REG.add(Contract(
        '__init__.TexSoup', case=_case, types={'tex_code': _ty, 'skip_envs': 'seq[str]', 'tolerance': 'int'},
        result='TexNode', props=['C01', 'C06', 'C08', 'C17'], raises=dict(ALLOWED),
        ensures=[A('root', 'result.expr.name == "[tex]"'),
                 P(['C01', 'C08'], 'exact',
                   'tolerance == 0 and noign(%s) and TL(result.expr.contents) ==> SL(result.expr.contents) == %s'
                   % (_src, _src)),
                 P(['C08'], 'non-blank',
                   'tolerance == 0 and noign(%s) and CLN(result.expr.contents) ==> '
                   'NW(SL(result.expr.contents)) == NW(%s)' % (_src, _src))]))
