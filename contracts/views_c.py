"""Contracts for the navigation views and the search functions of TexSoup/data.py (properties C04 and C03).

The views are read-only functions of a published expression tree: an expression e (sort E) with observers
eargs(e), body(e), pw(e) (preserve_whitespace); a TexNode wrapper is a value of the datatype Node (its expression
and the node it was reached from).  The specification functions below are folds over sequences; the engine supplies
their defining equations (empty / snoc / unfolding of one expression) where a loop or a call touches them.

  CONTF(xs, pw)  filter-map over a complete content list: TexText unwrapped to its text, whitespace-only text
                 dropped unless pw                                         (what `contents` is, per C04)
  ARGC(gs)       concatenation of CONT(g) over the argument groups gs
  ALLV(e)        ARGC(eargs(e)) ++ body(e)                                 (expr.all)
  CONT(e)        CONTF(ALLV(e), pw(e))                                     (expr.contents)
  KIDS(xs)       the commands and environments among xs                     (expr.children == KIDS(CONT(e)))
  NWRAP(xs, p)   node-level image of a content list: expressions wrapped with parent p, text leaves raw
  NALL(xs, p)    every element wrapped with parent p                        (TexNode.all / TexNode.children)
  DESC(n)        NWRAP(CONT(e_n), n) ++ DESCS(NALL(KIDS(CONT(e_n)), n))     (descendants: transitive closure of contents)
  DESCS(ns)      concatenation of DESC over the nodes ns
  TEXTV(n)       text leaves of the items of contents, nodes replaced by their own TEXTV, in order
"""
import ast

import z3
from z3 import (Function, IntSort, BoolSort, Length, If, And, Or, Not, Implies, Concat, Unit, Empty, IntVal, BoolVal,
                SubSeq, simplify)

from pyvc.contracts import Contract, ClassView, P, A, G, Raises, Loop
from pyvc.sorts import Str, Tok, E, ESeq, Node, Item, ItemSeq, NodeSeq, nexpr, pystr, pyslice
from pyvc.values import (Val, VI, VB, VS, VNone, VOpt, VTuple, VSeq, VE, lift, strz, Unsupported, fresh)
from pyvc.spec import QBool
from pyvc import ops
from pyvc.ops import ser
from .base import REG
from .tree import kind, kind_of, KINDS, body, eargs, ename, as_eseq

pw = Function('pw', E, BoolSort())                     # preserve_whitespace
untext = Function('untext', E, E)                      # TexText -> its underlying text (a raw str / Token leaf)
CONTF = Function('CONTF', ESeq, BoolSort(), ESeq)
ARGC = Function('ARGC', ESeq, ESeq)
ALLV = Function('ALLV', E, ESeq)
CONT = Function('CONT', E, ESeq)
KIDS = Function('KIDS', ESeq, ESeq)

STRKINDS = ('data.TexText', 'str', 'token')


def isstr_z(x):
    return Or(*[kind(x) == kind_of(c) for c in STRKINDS])


def kinds_under(eng, *bases):
    return [k for k, c in enumerate(KINDS) if c.startswith('data.') and any(b in eng.repo.mro(c) for b in bases)]


def iskid_z(eng, x):
    """a command or an environment (the classes TexCmd and TexEnv with their subclasses, read from the class tree)"""
    return Or(*[kind(x) == k for k in kinds_under(eng, 'data.TexEnv', 'data.TexCmd')])


def isexpr_z(eng, x):
    return Or(*[kind(x) == k for k in kinds_under(eng, 'data.TexExpr')])


def untext_facts(st, x):
    tt = kind(x) == kind_of('data.TexText')
    st.fact(Implies(tt, And(Or(kind(untext(x)) == kind_of('str'), kind(untext(x)) == kind_of('token')),
                            ser(untext(x)) == ser(x))))
    st.fact(Implies(Not(tt), untext(x) == x))


def isws_z(y):
    """whitespace-only text (after unwrapping): isinstance(content, str) and content.isspace()"""
    return And(isstr_z(y), ops.isspace_z(ser(y)))


def contf_step(acc, x, p):
    y = untext(x)
    return If(Or(Not(isws_z(y)), p), Concat(acc, Unit(y)), acc)


# ---------------------------------------------------------------------- fold bookkeeping
class Fold:
    """an uninterpreted fold over a sequence with engine-supplied defining equations"""
    ALL = []

    def __init__(self, f, step, init, nparams=0):
        self.f, self.step, self.init, self.nparams = f, step, init, nparams
        Fold.ALL.append(self)

    def key(self):
        return 'fold:' + self.f.name()

    def use(self, st, params):
        used = st.ghost.setdefault(self.key(), [])
        if not any(all(a.eq(b) for a, b in zip(params, u)) for u in used) or (not params and not used):
            st.ghost[self.key()] = used + [tuple(params)]
        empty = Empty(self.f.domain(0))
        st.fact(self.f(empty, *params) == self.init(*params))

    def snoc(self, eng, st, pre, x):
        for ps in st.ghost.get(self.key(), []):
            st.fact(self.f(Concat(pre, Unit(x)), *ps) == self.step(eng, st, self.f(pre, *ps), x, *ps))


def fold_item_hook(eng, what, payload, st):
    """a loop over xs reaches xs[k]: the folds in use unfold at xs[:k] ++ [xs[k]]"""
    if what == 'seq-item':
        xs, k, item = payload
        if xs.ty != 'seq':
            return None
        for F in Fold.ALL:
            if F.f.domain(0) == xs.z.sort():
                F.snoc(eng, st, pyslice(xs.z, None, k), xs.z[k])
        st.fact(pyslice(xs.z, None, Length(xs.z)) == xs.z)
    return None


REG.attr_hooks.append(fold_item_hook)

F_CONTF = Fold(CONTF, lambda eng, st, acc, x, p: (untext_facts(st, x), contf_step(acc, x, p))[1],
               lambda p: Empty(ESeq), nparams=1)
F_ARGC = Fold(ARGC, lambda eng, st, acc, g: (unfold_e(eng, st, g), Concat(acc, CONT(g)))[1], lambda: Empty(ESeq))
F_KIDS = Fold(KIDS, lambda eng, st, acc, x: If(iskid_z(eng, x), Concat(acc, Unit(x)), acc), lambda: Empty(ESeq))


def unfold_e(eng, st, e):
    """defining equations of the per-expression views at e"""
    st.fact(ALLV(e) == Concat(ARGC(eargs(e)), body(e)))
    st.fact(CONT(e) == CONTF(ALLV(e), pw(e)))
    # class invariant of TexArgs lifted to published expressions: an argument list holds groups and commands only
    # (every TexArgs mutator ensures `allargs`, contracts/texargs_c.py)
    from .tree import AA
    st.fact(AA(eargs(e)))
    F_ARGC.use(st, ())
    F_CONTF.use(st, (pw(e),))
    F_KIDS.use(st, ())


@REG.specfun('ALLV')
def _allv(ctx, e):
    unfold_e(ctx.engine, ctx.st, e.z)
    return VSeq(ALLV(e.z), 'E')


@REG.specfun('CONT')
def _cont(ctx, e):
    unfold_e(ctx.engine, ctx.st, e.z)
    return VSeq(CONT(e.z), 'E')


@REG.specfun('CONTF')
def _contf(ctx, xs, p):
    F_CONTF.use(ctx.st, (p.z,))
    return VSeq(CONTF(xs.z, p.z), 'E')


@REG.specfun('ARGC')
def _argc(ctx, xs):
    F_ARGC.use(ctx.st, ())
    return VSeq(ARGC(xs.z), 'E')


@REG.specfun('KIDS')
def _kids(ctx, xs):
    F_KIDS.use(ctx.st, ())
    return VSeq(KIDS(xs.z), 'E')


@REG.specfun('pw')
def _pw(ctx, e):
    return VB(pw(e.z))


# ---------------------------------------------------------------------- attribute access on published expressions
def dispatch_by_class(eng, st, v, attr, node, call):
    """dynamic dispatch of a method / property on a published expression: the classes of the tree (KINDS) are grouped
    by the function the attribute resolves to in the real class hierarchy; one path per group.  A subclass that
    overrides a view is therefore seen (its function needs its own contract, or the caller is out of reach)."""
    groups = {}
    for k, cls in enumerate(KINDS):
        if not cls.startswith('data.'):
            continue
        mem = eng.repo.lookup_member(cls, attr)
        if mem is None or mem[0] != 'func':
            continue
        groups.setdefault(mem[1], []).append(k)
    outs = []
    rest = st
    for q, ks in sorted(groups.items()):
        if rest is None:
            break
        cond = Or(*[kind(v.z) == k for k in ks])
        # kinds beyond KINDS (classes the tree model does not name) take the base-class function
        if q == 'data.TexExpr.' + attr:
            cond = Or(cond, kind(v.z) >= len(KINDS), kind(v.z) < 0)
        t, rest = eng.split(rest, cond)
        if t is None:
            continue
        if call:
            outs += eng.call_function(q, [v], {}, t, node)
        else:
            outs.append(('val', t, Val('func', None, qual=q, bound=v)))
    if rest is not None:        # raw str / token leaves have no such attribute
        outs.append(('raise', rest, 'AttributeError'))
    return outs


def views_attr_hook(eng, what, payload, st):
    if what == 'getattr':
        v, attr, node = payload
        if v.ty != 'E':
            return None
        if attr == 'args':
            from .tree import AA
            st.fact(AA(eargs(v.z)))       # class invariant of TexArgs (see unfold_e)
            return [('val', st, Val('seq', eargs(v.z), elem='E', texargs=True))]
        if attr == '_contents':
            return [('val', st, VSeq(body(v.z), 'E'))]
        if attr == 'preserve_whitespace':
            return [('val', st, VB(pw(v.z)))]
        if attr in ('all', 'contents', 'children'):
            return dispatch_by_class(eng, st, v, attr, node, call=True)
        if attr == '_text':      # only TexText has it (the code reads it under isinstance(content, TexText))
            untext_facts(st, v.z)
            t, f = eng.split(st, kind(v.z) == kind_of('data.TexText'))
            outs = []
            if t is not None:
                outs.append(('val', t, VE(untext(v.z))))
            if f is not None:
                outs.append(('raise', f, 'AttributeError'))
            return outs
        if attr == 'isspace':
            def isspace(eng_, args, kwargs, st_, node_, v=v):
                return [('val', st_, VB(ops.isspace_z(ser(v.z))))]
            return [('val', st, Val('func', None, wrapper=isspace))]
    return None


REG.attr_hooks.insert(0, views_attr_hook)

# ---------------------------------------------------------------------- TexExpr.all / contents / children
_ETY = {'self': 'E'}
_EREQ = [A('an-expression', 'isexpr(self)')]
REG.add(Contract(
    'data.TexExpr.all', types=_ETY, result='seq[E]', generator=True, props=['C04', 'C03', 'C17'], requires=_EREQ,
    ensures=[P(['C04', 'C03'], 'arguments-contents-then-body', 'result == ALLV(self)')],
    loops={0: Loop(invariant=[A('groups-done', '_out == ARGC(eargs(self)[:_k])')]),
           1: Loop(invariant=[A('group-prefix', '_out == ARGC(eargs(self)[:_k0]) + CONT(arg)[:_k]')]),
           2: Loop(invariant=[A('body-prefix', '_out == ARGC(eargs(self)) + body(self)[:_k]')])}))

REG.add(Contract(
    'data.TexExpr.contents', types=_ETY, result='seq[E]', generator=True, props=['C04', 'C03', 'C17'], requires=_EREQ,
    ensures=[P(['C04', 'C03'], 'all-without-whitespace-only-text', 'result == CONTF(ALLV(self), pw(self))'),
             A('is-CONT', 'result == CONT(self)')],
    loops={0: Loop(invariant=[A('prefix', '_out == CONTF(ALLV(self)[:_k], pw(self))')])}))

REG.add(Contract(
    'data.TexExpr.children', types=_ETY, result='seq[E]', props=['C04', 'C03', 'C17'], requires=_EREQ,
    ensures=[P(['C04', 'C03'], 'commands-and-environments-of-contents', 'result == KIDS(CONT(self))')]))


# ---------------------------------------------------------------------- builtin filter(lambda x: ..., xs)
FILTER_FOLDS = [(F_KIDS, lambda eng, x: iskid_z(eng, x))]


def filter_hook(eng, n, st):
    """filter(f, xs) over a sequence of expressions: f is evaluated once on an arbitrary element; the result is the
    registered filter fold whose predicate is equivalent to f's (checked by the solver).  A predicate that matches
    no registered fold gets an anonymous fold (the postcondition then cannot be proved from it)."""
    if not (isinstance(n, ast.Call) and isinstance(n.func, ast.Name) and n.func.id == 'filter' and len(n.args) == 2
            and 'filter' not in st.env):
        return None
    outs = []
    for o in eng.ev(n.args[1], st):
        if o[0] == 'raise':
            outs.append(o)
            continue
        s, xs = o[1], o[2]
        if xs.ty != 'seq' or xs.a['elem'] != 'E':
            raise Unsupported('filter over ' + xs.ty)
        x = fresh('x_filter', E)
        probe = s.fork()
        res = []
        for f in eng.ev(n.args[0], probe):
            if f[0] == 'raise':
                raise Unsupported('filter function raises')
            res += eng.call_value(f[2], [VE(x)], {}, f[1], n)
        if any(r[0] != 'val' for r in res):
            raise Unsupported('filter predicate raises')
        # the predicate as one term: disjunction over the paths of (path condition and truth of the value)
        base = len(s.pc)
        pz = Or(*[And(*(list(r[1].pc[base:]) + [eng.truth_of(r[2], r[1])])) for r in res])
        chosen = None
        for F, q in FILTER_FOLDS:
            sv = z3.Solver()
            sv.set('timeout', 5000)
            sv.add(pz != q(eng, x))
            if sv.check() == z3.unsat:
                chosen = F
                break
        if chosen is None:
            anon = Function('filter_L%d' % n.lineno, ESeq, ESeq)
            outs.append(('val', s, VSeq(anon(xs.z), 'E')))
        else:
            chosen.use(s, ())
            outs.append(('val', s, VSeq(chosen.f(xs.z), 'E')))
    return outs


REG.call_hooks.insert(0, filter_hook)


# ====================================================================== node level (TexNode)
NWRAP = Function('NWRAP', ESeq, Node, ItemSeq)      # contents / all at node level
NSUB = Function('NSUB', ESeq, Node, NodeSeq)        # children at node level
DESC = Function('DESC', Node, ItemSeq)
DESCS = Function('DESCS', NodeSeq, ItemSeq)
hgt = Function('hgt', E, IntSort())                 # height of the (finite) expression tree below e


def wrap_z(eng, x, p):
    return If(isexpr_z(eng, x), Item.wrapped(Node.sub(x, p)), Item.raw(x))


F_NWRAP = Fold(NWRAP, lambda eng, st, acc, x, p: Concat(acc, Unit(wrap_z(eng, x, p))), lambda p: Empty(ItemSeq), nparams=1)
F_NSUB = Fold(NSUB, lambda eng, st, acc, x, p: Concat(acc, Unit(Node.sub(x, p))), lambda p: Empty(NodeSeq), nparams=1)
F_DESCS = Fold(DESCS, lambda eng, st, acc, c: (unfold_n(eng, st, c), Concat(acc, DESC(c)))[1], lambda: Empty(ItemSeq))


def unfold_n(eng, st, n):
    e = nexpr(n)
    unfold_e(eng, st, e)
    F_NWRAP.use(st, (n,))
    F_NSUB.use(st, (n,))
    F_DESCS.use(st, ())
    st.fact(DESC(n) == Concat(NWRAP(CONT(e), n), DESCS(NSUB(KIDS(CONT(e)), n))))
    st.fact(Length(NSUB(KIDS(CONT(e)), n)) == Length(KIDS(CONT(e))))
    st.fact(hgt(e) >= 0)


@REG.specfun('nexpr')
def _nexpr(ctx, n):
    return VE(nexpr(n.z))


@REG.specfun('NWRAP')
def _nwrap(ctx, xs, p):
    F_NWRAP.use(ctx.st, (p.z,))
    return VSeq(NWRAP(xs.z, p.z), 'item')


@REG.specfun('NSUB')
def _nsub(ctx, xs, p):
    F_NSUB.use(ctx.st, (p.z,))
    return VSeq(NSUB(xs.z, p.z), 'node')


@REG.specfun('DESC')
def _desc(ctx, n):
    unfold_n(ctx.engine, ctx.st, n.z)
    return VSeq(DESC(n.z), 'item')


@REG.specfun('DESCS')
def _descs(ctx, ns):
    F_DESCS.use(ctx.st, ())
    return VSeq(DESCS(ns.z), 'item')


@REG.specfun('hgt')
def _hgt(ctx, e):
    ctx.st.fact(hgt(e.z) >= 0)
    return VI(hgt(e.z))


@REG.specfun('wrapped')
def _wrapped(ctx, n):
    return Val('item', Item.wrapped(n.z))


@REG.specfun('is_node')
def _is_node(ctx, it):
    return VB(Item.is_wrapped(it.z))


@REG.specfun('node_of')
def _node_of(ctx, it):
    return Val('node', Item.node(it.z))


@REG.specfun('parent_of')
def _parent_of(ctx, n):
    return Val('node', Node.spar(n.z))


@REG.specfun('has_parent')
def _has_parent(ctx, n):
    return VB(Node.is_sub(n.z))


def node_hook(eng, what, payload, st):
    if what == 'getattr':
        v, attr, node = payload
        if v.ty != 'node':
            return None
        if attr == 'expr':
            return [('val', st, VE(nexpr(v.z)))]
        if attr == 'parent':
            t, f = eng.split(st, Node.is_sub(v.z))
            outs = []
            if t is not None:
                outs.append(('val', t, Val('node', Node.spar(v.z))))
            if f is not None:
                outs.append(('val', f, VNone))
            return outs
        mem = eng.repo.lookup_member('data.TexNode', attr if not attr.startswith('__') or attr.endswith('__')
                                     else '_TexNode' + attr)
        if mem is None:
            mem = eng.repo.lookup_member('data.TexNode', attr)
        if mem is not None and mem[0] == 'func':
            fi = eng.repo.func(mem[1])
            if 'property' in fi.decorators:
                return eng.call_function(mem[1], [v], {}, st, node)
            return [('val', st, Val('func', None, qual=mem[1], bound=v))]
        # TexNode.__getattr__: every other attribute is a search
        return eng.call_function('data.TexNode.__getattr__', [v, VS(pystr(attr))], {}, st, node)
    if what == 'isinstance':
        v, t = payload
        if v.ty == 'node':
            return BoolVal(t.ty == 'cls' and t.a['name'] == 'data.TexNode')
    if what == 'hasattr':
        v, nm = payload
        if v.ty == 'node':
            return True           # TexNode.__getattr__ answers every name (with a search)
        if v.ty == 'E':
            # only asked of raw text leaves here (str / Token: Token.__getattr__ defers to str)
            return hasattr(str, nm)
    if what == 'to-elem':
        v, elem = payload
        if elem in ('item', 'node') and v.ty == 'obj' and v.a.get('cls') == 'data.TexNode':
            f = st.heap[v.a['ref']]
            e, p = f['expr'], f['parent']
            if e.ty != 'E':
                raise Unsupported('TexNode over an unpublished expression as a view element')
            if p.ty == 'node':
                return Val('node', Node.sub(e.z, p.z))
            if p.ty == 'none':
                return Val('node', Node.top(e.z))
            if p.ty == 'opt':       # not assigned since construction (None), or some node the state does not name
                some = p.a['some'].z if p.a['some'].ty == 'node' else fresh('some_parent', Node)
                return Val('node', If(p.a['isnone'], Node.top(e.z), Node.sub(e.z, some)))
            raise Unsupported('parent of a view element: ' + p.ty)
    if what == 'seq-item':
        xs, k, item = payload
        z = xs.z if xs.ty == 'seq' else None
        if z is not None and xs.a.get('defined_as') is not None:
            z = xs.a['defined_as']          # the fold application the contract's result is equal to
        if z is not None and z3.is_app(z) and z.decl().eq(KIDS):
            st.fact(iskid_z(eng, z[k]))      # L-filter: an element of a filter fold satisfies the predicate
        if z is not None and z3.is_app(z) and z.decl().eq(NSUB):
            # lemma L-filter (induction over the fold): an element of NSUB(KIDS(CONT(e)), n) is a command or an
            # environment, has parent n, and (finite trees, assumption T-finite) lies strictly below e
            inner, n = z.arg(0), z.arg(1)
            st.fact(Node.is_sub(z[k]))
            st.fact(Node.spar(z[k]) == n)
            st.fact(iskid_z(eng, Node.sexpr(z[k])))
            st.fact(hgt(Node.sexpr(z[k])) < hgt(nexpr(n)))
            st.fact(hgt(Node.sexpr(z[k])) >= 0)
    return None


REG.attr_hooks.insert(0, node_hook)

_NTY = {'self': 'node'}
_HGT = 'hgt(nexpr(self))'
REG.add(Contract(
    'data.TexNode.contents', types=_NTY, result='seq[item]', generator=True, props=['C04', 'C03', 'C17'],
    ensures=[P(['C04', 'C03'], 'expression-contents-wrapped-with-this-parent', 'result == NWRAP(CONT(nexpr(self)), self)')],
    loops={0: Loop(invariant=[A('prefix', '_out == NWRAP(CONT(nexpr(self))[:_k], self)')])}))
REG.add(Contract(
    'data.TexNode.all', types=_NTY, result='seq[item]', generator=True, props=['C04', 'C17'],
    ensures=[P(['C04'], 'complete-content-list-wrapped-with-this-parent', 'result == NWRAP(ALLV(nexpr(self)), self)')],
    loops={0: Loop(invariant=[A('prefix', '_out == NWRAP(ALLV(nexpr(self))[:_k], self)')])}))
REG.add(Contract(
    'data.TexNode.children', types=_NTY, result='seq[node]', generator=True, props=['C04', 'C03', 'C17'],
    ensures=[P(['C04', 'C03'], 'expression-children-wrapped-with-this-parent',
               'result == NSUB(KIDS(CONT(nexpr(self))), self)')],
    loops={0: Loop(invariant=[A('prefix', '_out == NSUB(KIDS(CONT(nexpr(self)))[:_k], self)')])}))


@REG.specfun('isexpr')
def _isexpr(ctx, e):
    return VB(isexpr_z(ctx.engine, e.z))


@REG.specfun('iskid')
def _iskid(ctx, e):
    return VB(iskid_z(ctx.engine, e.z))


REG.add(Contract('data.TexNode.__init__', case='wrap', types={'self': 'TexNode', 'expr': 'E', 'src': 'none'},
                 requires=[A('an-expression', 'isexpr(expr)')],
                 modifies=['self.expr', 'self.parent', 'self.char_to_line'], props=['C04', 'C17'],
                 ensures=[P(['C04'], 'wraps', 'self.expr is expr'), P(['C04'], 'no-parent', 'self.parent is None'),
                          A('no-source', 'self.char_to_line is None')]))


def _defined_as(term_of):
    """post-hook: remember the fold application a contract's result equals (for the L-filter instances)"""
    def hook(eng, st, b, pre):
        if b.get('result') is not None and b['result'].ty == 'seq':
            b['result'].a['defined_as'] = term_of(b['self'])
    return hook


REG.contracts['data.TexExpr.children'][0].hooks.append(_defined_as(lambda e: KIDS(CONT(e.z))))
REG.contracts['data.TexNode.children'][0].hooks.append(
    _defined_as(lambda n: NSUB(KIDS(CONT(nexpr(n.z))), n.z)))


# ---------------------------------------------------------------------- iteration, indexing, descendants
REG.add(Contract(
    'data.TexNode.__iter__', types=_NTY, result='seq[item]', props=['C04'],
    ensures=[P(['C04'], 'iteration-follows-contents', 'result == NWRAP(CONT(nexpr(self)), self)')]))
REG.add(Contract(
    'data.TexNode.__getitem__', types={'self': 'node', 'item': 'int'}, result='item', props=['C04'],
    raises={'IndexError': Raises('item >= len(CONT(nexpr(self))) or item < -len(CONT(nexpr(self)))', kind='P', props=['C04'])},
    ensures=[P(['C04'], 'indexing-follows-contents',
               'result == NWRAP(CONT(nexpr(self)), self)[item if item >= 0 else item + len(CONT(nexpr(self)))]')],
    hooks=[lambda eng, st, b, pre: None]))


def nwrap_len(eng, st, names):
    """lemma L-map (induction over the fold): NWRAP / NSUB keep the length"""
    n = names['self'].z
    e = nexpr(n)
    unfold_n(eng, st, n)
    st.fact(Length(NWRAP(CONT(e), n)) == Length(CONT(e)))


REG.contracts['data.TexNode.__getitem__'][0].init_hooks.append(nwrap_len)

REG.add(Contract(
    'data.TexNode.descendants', types=_NTY, result='seq[item]', props=['C04', 'C03', 'C17'], measure=(_HGT, 1),
    ensures=[P(['C04', 'C03'], 'transitive-closure-of-contents', 'result == DESC(self)')]))
REG.add(Contract(
    'data.TexNode.__descendants', types=_NTY, result='seq[item]', props=['C04', 'C03', 'C17'], measure=(_HGT, 0),
    ensures=[P(['C04', 'C03'], 'contents-then-descendants-of-each-child',
               'result == NWRAP(CONT(nexpr(self)), self) + DESCS(NSUB(KIDS(CONT(nexpr(self))), self))'),
             A('is-DESC', 'result == DESC(self)')]))


def chain_comp_hook(eng, n, st):
    """itertools.chain(A, *[f(c) for c in C]): A followed by the concatenation of f over C.  f is evaluated once on an
    arbitrary element c of C (so its contract is checked and its measure compared); when its value is DESC(c) the
    concatenation is the fold DESCS(C)."""
    if not (isinstance(n, ast.Call) and ast.unparse(n.func) == 'itertools.chain' and len(n.args) == 2 and
            isinstance(n.args[1], ast.Starred) and isinstance(n.args[1].value, ast.ListComp)):
        return None
    comp = n.args[1].value
    if len(comp.generators) != 1 or comp.generators[0].ifs or not isinstance(comp.generators[0].target, ast.Name):
        raise Unsupported('comprehension form')
    var = comp.generators[0].target.id
    outs = []
    for oa in eng.ev(n.args[0], st):
        if oa[0] == 'raise':
            outs.append(oa)
            continue
        for oc in eng.ev(comp.generators[0].iter, oa[1]):
            if oc[0] == 'raise':
                outs.append(oc)
                continue
            s, A_, C_ = oc[1], oa[2], oc[2]
            if A_.ty != 'seq' or C_.ty != 'seq' or C_.a['elem'] != 'node' or A_.a['elem'] != 'item':
                raise Unsupported('chain over %s / %s' % (A_.ty, C_.ty))
            j = fresh('j_comp', IntSort())
            probe = s.fork()
            probe.assume(And(0 <= j, j < Length(C_.z)))
            c = Val('node', C_.z[j])
            for hk in eng.reg.attr_hooks:
                hk(eng, 'seq-item', (C_, j, c), probe)
            saved = probe.env.get(var)
            probe.env[var] = c
            res = eng.ev(comp.elt, probe)
            for r in res:
                if r[0] == 'raise':
                    # an element on which f raises: the whole expression raises (for a non-empty C)
                    outs.append(('raise', r[1], r[2]))
            vals = [r for r in res if r[0] == 'val']
            if len(vals) != 1 or vals[0][2].ty != 'seq':
                raise Unsupported('comprehension element forks')
            pv = vals[0]
            sv = z3.Solver()
            sv.set('timeout', 5000)
            for h_ in pv[1].hyps():
                sv.add(h_)
            sv.add(pv[2].z != DESC(c.z))
            if sv.check() == z3.unsat:
                F_DESCS.use(s, ())
                flat = DESCS(C_.z)
            else:
                flat = Function('flat_L%d' % n.lineno, NodeSeq, ItemSeq)(C_.z)
            # obligations raised while evaluating f on the arbitrary element are kept (they were emitted on probe)
            outs.append(('val', s, VSeq(Concat(A_.z, flat), 'item')))
    return outs


REG.call_hooks.insert(0, chain_comp_hook)


# ---------------------------------------------------------------------- text view
TEXTV = Function('TEXTV', Node, ESeq)
TEXTS = Function('TEXTS', ItemSeq, ESeq)


def texts_step(eng, st, acc, it):
    unfold_text(eng, st, Item.node(it))
    return If(Item.is_wrapped(it), Concat(acc, TEXTV(Item.node(it))),
              If(isstr_z(Item.leaf(it)), Concat(acc, Unit(Item.leaf(it))), acc))


F_TEXTS = Fold(TEXTS, texts_step, lambda: Empty(ESeq))


def unfold_text(eng, st, n):
    F_TEXTS.use(st, ())
    st.fact(TEXTV(n) == TEXTS(NWRAP(CONT(nexpr(n)), n)))


@REG.specfun('TEXTV')
def _textv(ctx, n):
    unfold_n(ctx.engine, ctx.st, n.z)
    unfold_text(ctx.engine, ctx.st, n.z)
    return VSeq(TEXTV(n.z), 'E')


@REG.specfun('TEXTS')
def _texts(ctx, xs):
    F_TEXTS.use(ctx.st, ())
    return VSeq(TEXTS(xs.z), 'E')


def nwrap_item_hook(eng, what, payload, st):
    if what == 'seq-item':
        xs, k, item = payload
        z = xs.a.get('defined_as') if xs.ty == 'seq' else None
        if z is not None and z3.is_app(z) and z.decl().eq(NWRAP):
            # L-map: element k of the map fold is the image of element k; T-finite: a wrapped element lies below
            inner, n = z.arg(0), z.arg(1)
            st.fact(xs.z[k] == wrap_z(eng, inner[k], n))
            st.fact(Length(xs.z) == Length(inner))
            st.fact(Implies(Item.is_wrapped(xs.z[k]), And(hgt(nexpr(Item.node(xs.z[k]))) < hgt(nexpr(n)),
                                                         hgt(nexpr(Item.node(xs.z[k]))) >= 0)))
    return None


REG.attr_hooks.insert(0, nwrap_item_hook)
REG.contracts['data.TexNode.contents'][0].hooks.append(_defined_as(lambda n: NWRAP(CONT(nexpr(n.z)), n.z)))

REG.add(Contract(
    'data.TexNode.text', types=_NTY, result='seq[E]', generator=True, props=['C04', 'C17'], measure=(_HGT, 0),
    ensures=[P(['C04'], 'text-leaves-in-document-order', 'result == TEXTV(self)')],
    loops={0: Loop(invariant=[A('prefix', '_out == TEXTS(NWRAP(CONT(nexpr(self)), self)[:_k])')])}))


# ====================================================================== search: __match__, find_all, find, count, getattr
from .tree import SL, sl_facts
from . import data_c

ebegin = Function('ebegin', E, Str)      # TexEnv.begin / TexNamedEnv.begin
eend = Function('eend', E, Str)


def isenv_z(eng, x):
    return Or(*[kind(x) == k for k in kinds_under(eng, 'data.TexEnv')])


def delim_facts(eng, st, e):
    """begin / end of an environment by class: the class constants of the fixed-delimiter classes, \\begin{name} /
    \\end{name} for a named environment (TexNamedEnv.begin / .end read from the real properties' bodies)"""
    for cls in data_c.GROUPS + data_c.MATHS:
        b, en = eng.repo.class_attr(cls, 'begin'), eng.repo.class_attr(cls, 'end')
        st.fact(Implies(kind(e) == kind_of(cls), And(ebegin(e) == pystr(b), eend(e) == pystr(en))))
    st.fact(Implies(kind(e) == kind_of('data.TexNamedEnv'),
                    And(ebegin(e) == Concat(pystr('\\begin{'), ename(e), pystr('}')),
                        eend(e) == Concat(pystr('\\end{'), ename(e), pystr('}')))))


def has_brace_z(s):
    return Or(z3.Contains(s, pystr('{')), z3.Contains(s, pystr('[')))


def matchx_z(e, name):
    return If(has_brace_z(name), ser(e) == name, ename(e) == name)


def match_z(eng, st, e, name):
    """the match predicate of a single name or full-expression query (C03)"""
    delim_facts(eng, st, e)
    sl_facts(st, eargs(e))
    env = Or(name == ename(e), name == Concat(ebegin(e), SL(eargs(e))), name == ebegin(e), name == eend(e))
    return If(isenv_z(eng, e), Or(env, matchx_z(e, name)), matchx_z(e, name))


@REG.specfun('MATCH')
def _match(ctx, e, name):
    return VB(match_z(ctx.engine, ctx.st, e.z, strz(name)))


@REG.specfun('MATCHX')
def _matchx(ctx, e, name):
    return VB(matchx_z(e.z, strz(name)))


@REG.specfun('isenv')
def _isenv(ctx, e):
    return VB(isenv_z(ctx.engine, e.z))


def search_attr_hook(eng, what, payload, st):
    if what == 'getattr':
        v, attr, node = payload
        if v.ty != 'E':
            return None
        if attr == '__match__':
            return dispatch_by_class(eng, st, v, attr, node, call=False)    # dynamic dispatch on the class
        if attr in ('begin', 'end'):
            delim_facts(eng, st, v.z)
            return [('val', st, VS((ebegin if attr == 'begin' else eend)(v.z)))]
    if what == 'str':
        (v,) = payload
        if v.ty == 'seq' and v.a.get('texargs'):
            # TexArgs.__str__ (verified in contracts/texargs_c.py): the concatenation of the arguments' texts
            sl_facts(st, v.z)
            return [('val', st, VS(SL(v.z)))]
    return None


REG.attr_hooks.insert(0, search_attr_hook)

_MTY = {'self': 'E', 'name': 'str', 'attrs': 'nokwargs'}
REG.add(Contract(
    'data.TexExpr.__match__', case='name', types=_MTY, result='bool', props=['C03'],
    ensures=[P(['C03'], 'name-or-full-text', 'result == MATCHX(self, name)')]))
REG.add(Contract(
    'data.TexEnv.__match__', case='name', types=_MTY, result='bool', props=['C03'],
    requires=[A('an-environment', 'isenv(self)')],
    ensures=[P(['C03'], 'name-opening-delimiters-or-full-text', 'result == MATCH(self, name)')]))
REG.add(Contract(
    'data.TexNode.__match__', case='name', types={'self': 'node', 'name': 'str', 'attrs': 'nokwargs'}, result='bool',
    props=['C03'], ensures=[P(['C03'], 'match-of-the-expression', 'result == MATCH(nexpr(self), name)')]))


# ---------------------------------------------------------------------- find_all / find / count / attribute access
FOUND = Function('FOUND', ItemSeq, Str, ItemSeq)       # the wrapped items whose expression matches the name


def found_step(eng, st, acc, it, name):
    e = nexpr(Item.node(it))
    return If(And(Item.is_wrapped(it), match_z(eng, st, e, name)), Concat(acc, Unit(it)), acc)


F_FOUND = Fold(FOUND, found_step, lambda name: Empty(ItemSeq), nparams=1)


@REG.specfun('FOUND')
def _found(ctx, xs, name):
    F_FOUND.use(ctx.st, (strz(name),))
    f = FOUND(xs.z, strz(name))
    ctx.st.fact(Implies(Length(f) > 0, Item.is_wrapped(f[0])))       # L-filter at the first element
    return VSeq(f, 'item')


_STY = {'self': 'node', 'name': 'str', 'attrs': 'nokwargs'}
_FOUND = 'FOUND(DESC(self), name)'
REG.add(Contract(
    'data.TexNode.find_all', case='name', types=_STY, result='seq[item]', generator=True, props=['C03', 'C17'],
    ensures=[P(['C03'], 'exactly-the-matching-descendants-in-order', 'result == ' + _FOUND)],
    loops={0: Loop(invariant=[A('prefix', '_out == FOUND(DESC(self)[:_k], name)')])}))
REG.add(Contract(
    'data.TexNode.find', case='name', types=_STY, result='item?', props=['C03', 'C17'],
    ensures=[P(['C03'], 'none-iff-nothing-matches', '(result is None) == (len(%s) == 0)' % _FOUND),
             P(['C03'], 'first-of-find_all', 'result is not None ==> result == %s[0]' % _FOUND)]))
REG.add(Contract(
    'data.TexNode.count', case='name', types=_STY, result='int', props=['C03', 'C17'],
    ensures=[P(['C03'], 'length-of-find_all', 'result == len(%s)' % _FOUND)]))
REG.add(Contract(
    'data.TexNode.__getattr__', case='name', types={'self': 'node', 'attr': 'str', 'default': 'none'}, result='item?',
    props=['C03', 'C17'],
    ensures=[P(['C03'], 'attribute-access-is-find', '(result is None) == (len(FOUND(DESC(self), attr)) == 0)'),
             P(['C03'], 'attribute-access-is-find-first', 'result is not None ==> result == FOUND(DESC(self), attr)[0]')]))


# ---------------------------------------------------------------------- what a plain name matches (C03, first sentence)
from .wft_c import NAMECH, LETTERS


def plain_name_facts(eng, st, name):
    """lemma L-name (character-level, trusted): a non-empty string of ASCII letters and '*' contains no brace or
    bracket and does not start with any delimiter literal (each contains another character)"""
    lits = {'\\begin{', '\\end{'}
    for cls in data_c.GROUPS + data_c.MATHS:
        lits.add(eng.repo.class_attr(cls, 'begin'))
        lits.add(eng.repo.class_attr(cls, 'end'))
    assert all(any(ch not in LETTERS + '*' for ch in b) for b in lits)
    st.fact(Implies(And(NAMECH(name), Length(name) > 0),
                    And(Not(has_brace_z(name)), *[Not(z3.PrefixOf(pystr(b), name)) for b in sorted(lits)])))


@REG.specfun('plainname')
def _plainname(ctx, s):
    plain_name_facts(ctx.engine, ctx.st, strz(s))
    return VB(And(NAMECH(strz(s)), Length(strz(s)) > 0))


@REG.specfun('known_class')
def _known_class(ctx, e):
    """a command, a named environment, a group or a math region (the classes the parser creates)"""
    ks = [kind_of(c) for c in data_c.GROUPS + data_c.MATHS + ['data.TexNamedEnv', 'data.TexCmd']]
    return VB(Or(*[kind(e.z) == k for k in ks]))


REG.contracts['data.TexNode.__match__'][0].ensures.append(
    P(['C03'], 'a-plain-name-matches-exactly-the-commands-and-environments-of-that-name',
      'plainname(name) and known_class(nexpr(self)) ==> result == (ename(nexpr(self)) == name)'))


# ---------------------------------------------------------------------- a list of names matches the union
_LTY = {'self': 'E', 'name': 'seq[str]', 'attrs': 'nokwargs'}
_NOBR = A('no-brace-entry', 'not ("{" in name) and not ("[" in name)')
REG.add(Contract(
    'data.TexExpr.__match__', case='names', types=_LTY, result='bool', props=['C03'], requires=[_NOBR],
    ensures=[P(['C03'], 'name-is-one-of-the-list', 'result == (ename(self) in name)')]))
REG.add(Contract(
    'data.TexEnv.__match__', case='names', types=_LTY, result='bool', props=['C03'],
    requires=[A('an-environment', 'isenv(self)'), _NOBR],
    ensures=[P(['C03'], 'name-is-one-of-the-list', 'result == (ename(self) in name)')]))
REG.add(Contract(
    'data.TexNode.__match__', case='names', types={'self': 'node', 'name': 'seq[str]', 'attrs': 'nokwargs'}, result='bool',
    props=['C03'], requires=[_NOBR],
    ensures=[P(['C03'], 'name-is-one-of-the-list', 'result == (ename(nexpr(self)) in name)')]))

from pyvc.sorts import StrSeq
FOUNDL = Function('FOUNDL', ItemSeq, StrSeq, ItemSeq)


def foundl_step(eng, st, acc, it, names):
    e = nexpr(Item.node(it))
    return If(And(Item.is_wrapped(it), z3.Contains(names, Unit(ename(e)))), Concat(acc, Unit(it)), acc)


F_FOUNDL = Fold(FOUNDL, foundl_step, lambda names: Empty(ItemSeq), nparams=1)


@REG.specfun('FOUNDL')
def _foundl(ctx, xs, names):
    F_FOUNDL.use(ctx.st, (names.z,))
    return VSeq(FOUNDL(xs.z, names.z), 'item')


_SLTY = {'self': 'node', 'name': 'seq[str]', 'attrs': 'nokwargs'}
REG.add(Contract(
    'data.TexNode.find_all', case='names', types=_SLTY, result='seq[item]', generator=True, props=['C03', 'C17'],
    requires=[_NOBR],
    ensures=[P(['C03'], 'a-list-of-names-matches-the-union', 'result == FOUNDL(DESC(self), name)')],
    loops={0: Loop(invariant=[A('prefix', '_out == FOUNDL(DESC(self)[:_k], name)')])}))
REG.add(Contract(
    'data.TexNode.count', case='names', types=_SLTY, result='int', props=['C03', 'C17'], requires=[_NOBR],
    ensures=[P(['C03'], 'length-of-find_all', 'result == len(FOUNDL(DESC(self), name))')]))


# ---------------------------------------------------------------------- well-formedness preconditions and L-desc
from pyvc.contracts import Clause as _Clause
for _cs in REG.contracts.values():
    for _c in _cs:
        if _c.types.get('self') == 'node' and not any(cl.label == 'a-node-of-an-expression' for cl in _c.requires):
            _c.requires.append(A('a-node-of-an-expression', 'isexpr(nexpr(self))'))

for _q in ('data.TexNode.descendants', 'data.TexNode.__descendants'):
    REG.contracts[_q][0].hooks.append(_defined_as(lambda n: DESC(n.z)))


def desc_item_hook(eng, what, payload, st):
    if what == 'seq-item':
        xs, k, item = payload
        z = xs.a.get('defined_as') if xs.ty == 'seq' else None
        if z is not None and z3.is_app(z) and z.decl().eq(DESC):
            # L-desc (induction over the closure equation with L-map): a wrapped element of DESC(n) wraps an expression
            st.fact(Implies(Item.is_wrapped(xs.z[k]), isexpr_z(eng, nexpr(Item.node(xs.z[k])))))
    return None


REG.attr_hooks.insert(0, desc_item_hook)


# ---------------------------------------------------------------------- equality of expressions is textual
# The executor's `==` on published expressions (list.index / list.remove / `in`) is textual equality; these contracts
# check that assumption against the real TexExpr.__eq__ (C05, C15, C18 and the lookups of delete/replace depend on it).
REG.add(Contract(
    'data.TexExpr.__eq__', case='expr', types={'self': 'E', 'other': 'E'}, result='bool', props=['C05', 'C15', 'C18', 'C14'],
    requires=[A('not-a-text-leaf', 'kind(self) != K("TexText")')],
    ensures=[P(['C05', 'C15', 'C18'], 'equality-is-equality-of-the-texts', 'result == (ser(self) == ser(other))')]))
REG.add(Contract(
    'data.TexExpr.__eq__', case='str', types={'self': 'E', 'other': 'str'}, result='bool', props=['C05', 'C15', 'C18', 'C14'],
    requires=[A('not-a-text-leaf', 'kind(self) != K("TexText")')],
    ensures=[P(['C05', 'C15', 'C18'], 'equality-is-equality-of-the-texts', 'result == (ser(self) == other)')]))
