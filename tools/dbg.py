"""debug helper: python3-vt tools/dbg.py <contract key> <obligation suffix>  -> prints solver verdict and, for a list of
candidate lemmas typed on stdin (python expressions over z3 and the obligation's constants), whether each is entailed"""
import sys, re
sys.path.insert(0, '/verif')
from pyvc.loader import Repo
from pyvc.engine import Engine
from contracts import load_all
import z3
from z3 import *

def consts_of(fs):
    seen = {}
    stack = list(fs)
    ids = set()
    while stack:
        t = stack.pop()
        if t.get_id() in ids: continue
        ids.add(t.get_id())
        if z3.is_const(t) and t.decl().kind() == z3.Z3_OP_UNINTERPRETED:
            seen[str(t)] = t
        stack.extend(t.children())
    return seen

def main():
    key, suffix = sys.argv[1], sys.argv[2]
    nth = int(sys.argv[3]) if len(sys.argv) > 3 else 0
    reg = load_all(); eng = Engine(Repo(), reg)
    c = [c for c in reg.all_contracts() if c.key == key][0]
    obls = [o for o in eng.verify(c) if o.name.endswith(suffix)]
    print(len(obls), 'matching obligations')
    o = obls[nth]
    cs = consts_of(o.hyps + [o.goal])
    print('consts:', sorted(cs))
    s = Solver(); s.set('timeout', 20000)
    for h in o.hyps: s.add(h)
    s.push(); s.add(Not(o.goal)); print('goal:', s.check()); s.pop()
    from contracts.utils_c import sl
    from contracts.base import JT
    from contracts.tree import SL, TL, TAg, NW, tight, body, ser
    from contracts.reader_c import clean, CLN, NT, CLEANSRC, closer5
    from pyvc.sorts import Tok, pystr, Str, E, ESeq
    env = dict(globals()); env.update(locals())
    env['C'] = lambda n: cs[n]
    for line in sys.stdin:
        line = line.strip()
        if not line: continue
        f = eval(line, env)
        s.push(); s.add(Not(f)); r = s.check(); s.pop()
        print('%-8s %s' % ('ENTAILED' if r == unsat else str(r), line))
main()
