#!/bin/bash
# usage: mut.sh <file under TexSoup/> <python-regex-old> <new> [contract keys...]
# applies one textual replacement on a scratch copy of /repo and runs the deductive engine on it
set -e
D=$(mktemp -d ${TMPDIR:-/tmp}/mut.XXXXXX)
cp -r /repo/TexSoup $D/
F=$1; OLD=$2; NEW=$3; shift 3
python3 - "$D/TexSoup/$F" "$OLD" "$NEW" <<'PY'
import sys,re
p,old,new=sys.argv[1:4]
s=open(p).read()
assert old in s, 'pattern not found'
assert s.count(old)==1, 'pattern not unique: %d'%s.count(old)
open(p,'w').write(s.replace(old,new))
PY
cd /verif && VERIF_REPO=$D python3-vt -m pyvc.run "$@" 2>&1 | grep -v "^WARNING\|^   " | tail -12
rm -rf $D
