#!/usr/bin/env python3-vt
"""setup: self-test of the engine (no build step is needed)."""
import os, sys
sys.path.insert(0, os.path.dirname(os.path.dirname(os.path.abspath(__file__))))
import z3
from pyvc.loader import Repo
from contracts import load_all
r = Repo()
reg = load_all()
n = len(list(reg.all_contracts()))
assert n > 0 and len(r.funcs) > 100
assert os.path.exists('/usr/bin/cvc5')
print('pyvc self-test ok: z3', z3.get_version_string(), '; %d functions indexed; %d contracts' % (len(r.funcs), n))
