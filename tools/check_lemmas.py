#!/usr/bin/env python3
"""Run Lean on lemmas/Lemmas.lean; exit 0 iff it elaborates without error, without `sorry`, and the printed axiom
lists contain nothing but Lean's standard three.  Prints one JSON line with the details."""
import hashlib
import json
import os
import re
import subprocess
import sys
import time

HERE = os.path.dirname(os.path.dirname(os.path.abspath(__file__)))
SRC = os.path.join(HERE, 'lemmas', 'Lemmas.lean')
ALLOWED = {'propext', 'Classical.choice', 'Quot.sound'}


def run():
    t0 = time.time()
    text = open(SRC).read()
    out = {'file': 'lemmas/Lemmas.lean', 'sha256': hashlib.sha256(text.encode()).hexdigest()[:16],
           'theorems': re.findall(r'^\s*theorem\s+(\w+)', text, re.M)}
    if re.search(r'\bsorry\b|\badmit\b|^\s*axiom\b', re.sub(r'/-.*?-/', '', text, flags=re.S), re.M):
        out.update(ok=False, reason='sorry/admit/axiom in the source')
        return out
    try:
        p = subprocess.run(['lean', SRC], capture_output=True, text=True, timeout=1500, cwd=os.path.join(HERE, 'lemmas'))
    except Exception as e:        # lean missing or timed out
        out.update(ok=False, reason='%s: %s' % (type(e).__name__, e))
        return out
    axioms = set()
    for m in re.finditer(r"depends on axioms: \[(.*?)\]", p.stdout, re.S):
        axioms |= {a.strip() for a in m.group(1).split(',') if a.strip()}
    out.update(ok=(p.returncode == 0 and 'error' not in p.stdout and 'error' not in p.stderr and axioms <= ALLOWED),
               exit=p.returncode, axioms=sorted(axioms), secs=round(time.time() - t0, 1),
               reason=(p.stdout + p.stderr)[-600:] if p.returncode != 0 else '')
    return out


if __name__ == '__main__':
    r = run()
    print(json.dumps(r))
    sys.exit(0 if r['ok'] else 1)
