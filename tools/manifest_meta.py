SOURCE_COMMITS = []
NOTES = ('Exit codes of every check: 0 held (KNOWN-FINDING lines allowed), 1 VIOLATION, 2 UNDECIDED (an obligation was not '
         'decided or a function left the executable subset; never reported as a violation), 3 checker error. '
         'No hook or instrumentation exists in /repo (sidecar contracts under /verif/contracts); the commits in /repo are the '
         'fix: commits listed in known_findings.json. The linking lemmas are mechanised in lemmas/Lemmas.lean '
         '(python3-vt tools/check_lemmas.py; re-checked by every thorough run). 96 seeded property-breaking changes from '
         'independent sub-agents are kept under seeded/ (tools/seed_regress.sh re-runs them; seeded/REGRESSION.txt).')
NOT_APPLICABLE = {}
CHECKS = {
    'C20': dict(
        level='proof',
        text='Every Buffer method (next, indexing, slicing, peek, hasNext, forward, backward, startswith, endswith, '
             'forward_until, num_forward_until, position, constructor) is verified against a list+index contract over the '
             'view <Q,i,m> for all sequences, cursors and materialisation states with no bound; histories follow by the '
             'simulation lemma M1. A breadth-first comparison with the list model is the bounded cross-check.',
        design_ref='5.2, 6 (C20), Appendix A.1',
        note='Trusted: the VC generator and its Python semantics, z3/cvc5, the representation map Buffer -> <Q,i,m>, '
             'lemma M1 (induction on history length; mechanised in lemmas/Lemmas.lean M1_simulation). Assumes default join/init/empty, a finite underlying '
             'iterator that raises only StopIteration, pure callbacks.',
        technique='contract-based deductive verification (VCs from the real AST, z3+cvc5) + bounded BFS stand-in'),
    'C19': dict(
        level='proof',
        text='categorize is verified for a symbolic code point (all 1,114,112 at once) against the real category table; every '
             'tokenizer, next_token (with termination) and tokenize are verified against contracts saying each token is a '
             'non-empty slice of the input at its recorded offset, tokens are in order, and the characters between tokens are '
             'Ignored/Invalid only. Exhaustive short strings and all single code points are the bounded cross-check.',
        design_ref='5.3, 6 (C19)',
        note='Trusted: VC generator, z3/cvc5, Buffer representation map, definitional instances of the jointext and counting '
             'folds, lemma M4 (slices with ignorable gaps concatenate to a source without such characters; mechanised in '
             'lemmas/Lemmas.lean M4_partition).',
        technique='contract-based deductive verification (VCs from the real AST, z3+cvc5) + bounded exhaustive stand-in'),
}
SOURCE_COMMITS = []
