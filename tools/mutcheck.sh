#!/bin/bash
# usage: mutcheck.sh <file under TexSoup/> <old> <new> <PID>...   -- runs ./check on a scratch copy with one replacement
D=$(mktemp -d ${TMPDIR:-/tmp}/mut.XXXXXX)
cp -r /repo/TexSoup $D/
F=$1; OLD=$2; NEW=$3; shift 3
python3 - "$D/TexSoup/$F" "$OLD" "$NEW" <<'PY' || { rm -rf $D; exit 9; }
import sys
p,old,new=sys.argv[1:4]
s=open(p).read()
assert s.count(old)==1, 'pattern count %d'%s.count(old)
open(p,'w').write(s.replace(old,new))
PY
for P in "$@"; do
  VERIF_REPO=$D python3-vt /verif/check $P 2>&1 | grep -v "^WARNING" | tail -8; echo "exit=${PIPESTATUS[0]}"
done
rm -rf $D
