#!/bin/bash
# usage: seed_eval.sh <seed id> <patch.diff> <demo.py> <PID> [more PIDs...]
# confirms a seeded change (tests pass with it, demo fails with it and passes without), runs the checks against it,
# and always restores /repo.  Results go to /verif/seeded/<seed id>/.
set -u
ID=$1; PATCH=$(readlink -f $2); DEMO=$(readlink -f $3); shift 3
OUT=/verif/seeded/$ID; mkdir -p $OUT
cp $PATCH $OUT/patch.diff; cp $DEMO $OUT/demo.py
cd /repo
git diff --quiet || { echo "/repo is not clean"; exit 9; }
echo "== demo on the unchanged tree"; VERIF_REPO=/repo /venv/bin/python $OUT/demo.py > $OUT/demo_clean.log 2>&1; DC=$?; echo "exit=$DC"
git apply $PATCH || { echo "patch does not apply"; exit 9; }
trap 'git -C /repo checkout -- . ; echo "(repo restored)"' EXIT
echo "== tests with the change"; /venv/bin/python -m pytest -q -p no:cacheprovider > $OUT/tests.log 2>&1; TS=$?; tail -1 $OUT/tests.log
echo "== demo with the change"; VERIF_REPO=/repo /venv/bin/python $OUT/demo.py > $OUT/demo_changed.log 2>&1; DX=$?; echo "exit=$DX"
RES=""
for P in "$@"; do
  echo "== check $P"
  (cd /verif && python3-vt check $P > $OUT/check_$P.log 2>&1); CX=$?
  grep -h "VIOLATION\|UNDECIDED property\|refuted obligation\|^# C" $OUT/check_$P.log | cut -c1-220 | head -12
  echo "exit=$CX"
  RES="$RES $P:$CX"
done
echo "{\"tests_exit\": $TS, \"demo_clean_exit\": $DC, \"demo_changed_exit\": $DX, \"checks\": \"$RES\"}" > $OUT/result.json
cat $OUT/result.json
