#!/usr/bin/env python3
"""(Re)generate MANIFEST.json from props.py; properties without a check are listed under not_applicable."""
import json, os, sys
sys.path.insert(0, os.path.dirname(os.path.dirname(os.path.abspath(__file__))))
os.environ.setdefault('MKMANIFEST', '1')
import importlib.util
spec = importlib.util.spec_from_file_location('manifest_meta', os.path.join(os.path.dirname(__file__), 'manifest_meta.py'))
meta = importlib.util.module_from_spec(spec); spec.loader.exec_module(meta)
props = [json.loads(l)['id'] for l in open(os.path.join(os.path.dirname(__file__), '..', 'properties.jsonl'))]
checks = []
sys.path.insert(0, os.path.join(os.path.dirname(__file__), '..'))
from props import PROPS
for pid in props:
    if pid not in PROPS:
        continue
    cfg = PROPS[pid]
    m = meta.CHECKS.get(pid) or {
        'level': cfg['level'],
        'text': cfg.get('explanation', '') + ' Linking lemmas: ' + '; '.join(cfg.get('lemmas', []) or ['none']),
        'design_ref': 'section 6 (%s)' % pid,
        'note': 'Trusted: ' + '; '.join(cfg.get('trusted_base', []) + ['VC generator and its Python semantics', 'z3/cvc5'])
                + '. Assumptions: ' + '; '.join(cfg.get('assumptions', []) or ['none']),
        'technique': 'contract-based deductive verification (VCs from the real AST, z3+cvc5) + bounded stand-in'}
    checks.append({
        'property_id': pid,
        'quick_cmd': 'python3-vt check %s --tier quick' % pid,
        'thorough_cmd': 'python3-vt check %s --tier thorough' % pid,
        'evidence_file': 'evidence/%s.json' % pid,
        'replay_cmd_template': 'python3-vt check %s --replay {path}' % pid,
        'engine': 'pyvc',
        'level_claimed': {'category': m['level'], 'text': m['text'], 'design_ref': m['design_ref']},
        'level_note': m['note'],
        'technique': m['technique'],
    })
man = {
    'version': 1,
    'setup_cmd': 'python3-vt tools/selftest.py',
    'hooks': {'guard': 'TEXSOUP_VERIF', 'enable': 'none needed: contracts are a sidecar under /verif/contracts, /repo is not instrumented',
              'baseline_off_cmd': 'cd /repo && /venv/bin/python -m pytest -ra -q -p no:cacheprovider --timeout=900 --continue-on-collection-errors',
              'source_commits': meta.SOURCE_COMMITS, 'add_only': True},
    'engines': [{'name': 'pyvc', 'path': 'pyvc/', 'serves_properties': [c['property_id'] for c in checks],
                 'kind_free_text': 'contract-based deductive verifier for a Python subset: ast -> verification conditions over the real '
                                   'function bodies against sidecar contracts, discharged by z3 5.1 and cvc5 1.0.3; bounded stand-ins under bounded/'}],
    'checks': checks,
    'notes': meta.NOTES,
    'not_applicable': [{'property_id': p, 'reason': meta.NOT_APPLICABLE.get(p, 'check not built yet (build in progress; DESIGN.md section 11 gives the order)')}
                       for p in props if p not in PROPS],
}
json.dump(man, open(os.path.join(os.path.dirname(__file__), '..', 'MANIFEST.json'), 'w'), indent=1)
print('checks:', [c['property_id'] for c in checks])
