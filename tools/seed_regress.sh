#!/bin/bash
# re-runs every kept seeded change against the current checks: applies the patch in /repo, runs the property's quick check,
# restores /repo.  Writes /verif/seeded/REGRESSION.txt (one line per change: id property exit-code or STALE when the patch
# no longer applies to the repaired tree).  usage: seed_regress.sh [glob of seed ids, default *]
cd /repo && git diff --quiet || { echo "/repo is not clean"; exit 9; }
PAT=${1:-*}
OUT=/verif/seeded/REGRESSION.txt; [ "$PAT" = "*" ] && : > $OUT
for D in /verif/seeded/$PAT/; do
  ID=$(basename $D); [ -f $D/patch.diff ] || continue
  P=$(python3 -c "import json; print(json.load(open('$D/meta.json'))['property'])")
  if ! git -C /repo apply --check $D/patch.diff 2>/dev/null; then echo "$ID $P STALE (patch does not apply to the current tree)" >> $OUT; continue; fi
  git -C /repo apply $D/patch.diff
  (cd /verif && python3-vt check $P --tier quick > /tmp/regress_$ID.log 2>&1); X=$?
  git -C /repo checkout -- . ; git -C /repo clean -fdq -e out 2>/dev/null
  echo "$ID $P exit=$X $(grep -c '^VIOLATION' /tmp/regress_$ID.log) violation lines" >> $OUT
done
echo "DONE ($PAT) at $(git -C /verif rev-parse --short HEAD)" >> $OUT
