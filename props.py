"""Per-property configuration of the checks: which contracts form the closure, the level claimed, the bounded
stand-ins, assumptions.  (The property texts themselves are in properties.jsonl and are not edited.)"""


def by_prefix(*prefixes):
    return lambda c: any(c.qual.startswith(p) or c.qual == p for p in prefixes)


PROPS = {
    'C20': dict(
        select=by_prefix('utils.Buffer.', 'utils.Token.join', 'utils.Token.__new__', 'utils.Token.__iadd__',
                         'utils.Token.__add__', 'utils.Token.__radd__', 'utils.Token.__eq__', 'utils.Token.__bool__'),
        level='proof',
        bounded=['c20.py'],
        lemmas=['M1 simulation (DESIGN 9): every operation refines its list+index model operation and preserves the '
                'representation invariant, hence every finite history does (induction on length; not mechanised)'],
        trusted_base=['representation map of utils.Buffer onto <Q,i,m> (contracts/utils_c.py BufferRep): '
                      '__queue == Q[:m] checked at every store, __iterator yields Q[m], constructor defaults for '
                      '__join/__init/__empty'],
        assumptions=['the underlying iterator is finite and raises only StopIteration',
                     'buffers are built with the default join/init/empty (string- and token-backed buffers)',
                     'callbacks given to forward_until/num_forward_until are pure and do not move the cursor',
                     'negative absolute indices (outside the property\'s in-range restriction) are not claimed (D14)'],
        explanation='every Buffer method is verified against its list+index contract for all sequences, cursors and '
                    'materialisation states; histories follow by the simulation lemma M1; a BFS against the list model '
                    'is the bounded cross-check'),
    'C19': dict(
        select=by_prefix('category.', 'tokens.', 'utils.Buffer.__next__', 'utils.Token.__new__', 'utils.Token.__iadd__',
                         'utils.Token.__add__', 'utils.Token.__radd__', 'utils.Token.join'),
        level='proof',
        bounded=['c19.py'],
        lemmas=['M4 (DESIGN 9): increasing, pairwise disjoint slices of S whose gaps contain only Ignored/Invalid characters '
                'concatenate to S with exactly those characters removed (induction on the number of tokens; not mechanised)',
                'L-len: jointext over one-character items has as many characters as items (carried as the loop invariant '
                'acc-len of every accumulating tokenizer, so it is proved, not assumed)'],
        trusted_base=['representation map of utils.Buffer (see C20)',
                      'definitional instances of the counting fold cnt(Q,c,a,b) incl. the bound cnt <= b-a and disjointness of '
                      'distinct categories (contracts/tokens_c.py cnt_facts/cnt_base)'],
        assumptions=['utils.Buffer methods behave as their contracts say (discharged under C20)',
                     'Buffer.peek(-1) at cursor 0 wraps onto the last materialised character (finding D14); the tokenizer '
                     'contracts state this behaviour instead of hiding it'],
        explanation='categorize is verified for a symbolic code point against the real CATEGORY_CODES table; each of the 11 '
                    'tokenizers, next_token (incl. termination) and tokenize are verified against slice/offset contracts; '
                    'tokenize\'s postcondition is the partition statement of C19'),
}
