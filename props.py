"""Per-property configuration of the checks: which contracts form the closure, the level claimed, the bounded
stand-ins, assumptions.  (The property texts themselves are in properties.jsonl and are not edited.)"""


def frame_obligations(repo):
    """C17: every site found by the frame scan must be on the committed allow-list"""
    import ast
    import json
    import os
    from pyvc.frame import scan
    allow = json.load(open(os.path.join(os.path.dirname(os.path.abspath(__file__)), 'contracts', 'frame_allow.json')))['allowed']
    out = []
    sites = scan(repo)
    for s in sites:
        out.append(('frame#%s' % s.key, s.key in allow, '%r%s' % (s, '' if s.key in allow else ' -- not on the allow-list')))
    for k in allow:
        if not any(s.key == k for s in sites):
            out.append(('frame#allow-list-entry-still-present[%s]' % k, True, 'site no longer present (allow-list entry unused)'))
    # `token` (which appends to the module-level tokenizer list) is only used as a decorator of module-level functions
    tree = repo.trees['tokens']
    uses = [n for n in ast.walk(tree) if isinstance(n, ast.Name) and n.id == 'token' and isinstance(n.ctx, ast.Load)]
    decos = [d.func for f in tree.body if isinstance(f, ast.FunctionDef) for d in f.decorator_list
             if isinstance(d, ast.Call) and isinstance(d.func, ast.Name) and d.func.id == 'token']
    out.append(('frame#token-decorator-only-at-module-level', len(uses) == len(decos),
                '%d uses of `token`, %d of them decorators of module-level functions' % (len(uses), len(decos))))
    # no function of the six modules is left unscanned
    out.append(('frame#all-functions-scanned', len(repo.funcs) > 100, '%d functions' % len(repo.funcs)))
    return out


def modeflow_obligations(repo, param='mode'):
    """the parsing mode / tolerance / skip list reaches every nested reader (pyvc/modeflow.py); sites off the
    allow-list are failed obligations"""
    import json
    import os
    from pyvc.modeflow import scan, key
    allow = json.load(open(os.path.join(os.path.dirname(os.path.abspath(__file__)), 'contracts', 'modeflow_allow.json')))['allowed']
    prefix = {'mode': 'MF', 'tolerance': 'TF', 'skip_envs': 'SF'}[param]
    allow = {k: v for k, v in allow.items() if k.startswith(prefix)}
    out = []
    sites = scan(repo, param=param)
    for s in sites:
        ok = s[4] or key(s) in allow
        out.append(('modeflow#%s' % key(s), ok, '%s line %d%s' % (key(s), s[5], '' if ok else
                    ' -- the mode does not reach the callee / is reassigned at a site not on the allow-list')))
    for k in allow:
        if not any(key(s) == k for s in sites):
            out.append(('modeflow#allow-list-entry-still-present[%s]' % k, True, 'site no longer present'))
    out.append(('modeflow#readers-scanned[%s]' % param, len(sites) >= 5, '%d call/assignment sites' % len(sites)))
    if param != 'mode':
        return out
    # the dead store must stay dead: no use of `mode` after it in read_command
    import ast
    fn = [n for n in repo.trees['reader'].body if isinstance(n, ast.FunctionDef) and n.name == 'read_command']
    if fn:
        stores = [n for n in ast.walk(fn[0]) if isinstance(n, ast.Assign) and any(
            isinstance(t, ast.Name) and t.id == 'mode' for t in n.targets) and ast.unparse(n.value) == 'MODE_NON_MATH']
        for st_ in stores:
            later = [n for n in ast.walk(fn[0]) if isinstance(n, ast.Name) and n.id == 'mode' and
                     isinstance(n.ctx, ast.Load) and n.lineno > st_.lineno]
            out.append(('modeflow#store-after-arguments-is-dead[L%d]' % st_.lineno, not later,
                        '%d later uses of mode' % len(later)))
    return out


def by_prefix(*prefixes):
    return lambda c: any(c.qual.startswith(p) or c.qual == p for p in prefixes)


PROPS = {
    'C20': dict(
        select=by_prefix('utils.Buffer.', 'utils.Token.join', 'utils.Token.__new__', 'utils.Token.__iadd__',
                         'utils.Token.__add__', 'utils.Token.__radd__', 'utils.Token.__eq__', 'utils.Token.__bool__'),
        level='proof',
        bounded=['c20.py'],
        lemmas=['M1 simulation (DESIGN 9): every operation refines its list+index model operation and preserves the '
                'representation invariant, hence every finite history does (induction on length; mechanised: lemmas/Lemmas.lean M1_simulation)'],
        trusted_base=['representation map of utils.Buffer onto <Q,i,m> (contracts/utils_c.py BufferRep): '
                      '__queue == Q[:m] checked at every store, __iterator yields Q[m], constructor defaults for '
                      '__join/__init/__empty'],
        assumptions=['the underlying iterator is finite and raises only StopIteration',
                     'buffers are built with the default join/init/empty (string- and token-backed buffers)',
                     'callbacks given to forward_until/num_forward_until are pure and do not move the cursor',
                     'negative absolute indices (outside the property\'s in-range restriction) are not claimed (D14)'],
        explanation='every Buffer method is verified against its list+index contract for all sequences, cursors and '
                    'materialisation states; histories follow by the simulation lemma M1; a BFS against the list model '
                    'is the bounded cross-check'),
    'C19': dict(
        select=by_prefix('category.', 'tokens.', 'utils.Buffer.__next__', 'utils.Token.__new__', 'utils.Token.__iadd__',
                         'utils.Token.__add__', 'utils.Token.__radd__', 'utils.Token.join'),
        level='proof',
        bounded=['c19.py'],
        lemmas=['M4 (DESIGN 9): increasing, pairwise disjoint slices of S whose gaps contain only Ignored/Invalid characters '
                'concatenate to S with exactly those characters removed (induction on the number of tokens; mechanised for sources without such characters: lemmas/Lemmas.lean M4_partition)',
                'L-len: jointext over one-character items has as many characters as items (carried as the loop invariant '
                'acc-len of every accumulating tokenizer, so it is proved, not assumed)'],
        trusted_base=['representation map of utils.Buffer (see C20)',
                      'definitional instances of the counting fold cnt(Q,c,a,b) incl. the bound cnt <= b-a and disjointness of '
                      'distinct categories (contracts/tokens_c.py cnt_facts/cnt_base)'],
        assumptions=['utils.Buffer methods behave as their contracts say (discharged under C20)',
                     'Buffer.peek(-1) at cursor 0 wraps onto the last materialised character (finding D14); the tokenizer '
                     'contracts state this behaviour instead of hiding it'],
        explanation='categorize is verified for a symbolic code point against the real CATEGORY_CODES table; each of the 11 '
                    'tokenizers, next_token (incl. termination) and tokenize are verified against slice/offset contracts; '
                    'tokenize\'s postcondition is the partition statement of C19'),
    'C06': dict(
        select=lambda c: c.qual.split('.')[0] in ('category', 'tokens', 'reader', 'tex', '__init__') or
        c.qual.startswith('utils.Buffer.') or c.qual.startswith('utils.CharToLineOffset') or c.qual.startswith('utils.Token.') or
        c.qual in ('data.TexExpr.__init__', 'data.TexExpr.append', 'data.TexNode.__init__'),
        level='other',
        bounded=['parse.py', 'c06_growth.py'],
        lemmas=['the only exception types that can leave TexSoup() are those declared in the `raises` clauses of the closure '
                '(EOFError from unclosed_env_handler, TypeError from read_arg, AssertionError from the two asserts of read_expr); '
                'every other raise site (next(), attribute of None, indexing, KeyError, assert) is an obligation "unreachable"',
                'termination: a decreases clause on every loop and a lexicographic (|T|-i, rank) measure on every call in the '
                'mutually recursive readers'],
        trusted_base=['Buffer representation map (C20)', 'TexArgs contracts used by the readers (verified under C18)',
                      'constructor of TexText is summarised (contracts/data_c.py ctor_TexText)'],
        assumptions=['open finding D25: in tolerant mode one family of nested inputs needs exponentially many steps (termination '
                     'is proved, "never hangs" at depth 40 is not true in practice); this is why the level is "other"',
                     'interpreter recursion limit and memory are not modelled (C06 states nesting depth <= 40)',
                     'wall-clock hangs are replaced by termination measures'],
        explanation='exception-freedom and termination of every function reachable from TexSoup() for all inputs, both '
                    'tolerance modes; the parse sweep is the bounded cross-check'),
    'C08': dict(
        select=lambda c: c.qual.split('.')[0] in ('reader', 'tex', '__init__') or
        c.qual in ('data.TexExpr.__init__', 'data.TexExpr.append', 'data.TexCmd.__str__', 'data.TexEnv.__str__',
                   'data.TexArgs.__str__', 'category.categorize', 'utils.Buffer.forward_until') or
        c.qual.startswith('tokens.'),
        level='other',
        bounded=['parse.py'],
        lemmas=['L08: read() ensures NW(str(root)) == NW(S) for a clean (no bare-token argument, every environment closed by '
                'exactly \\end{name} after a tight \\begin{name}) strict parse of a source without NUL/DEL; with tight() instead of '
                'clean() the serialisation equals S',
                'M4 (trusted): the token texts concatenate to the source (from the partition postcondition of tokenize)',
                'WFT (assumed, bounded-checked): structural tokens carry their literal text; a backslash token is followed by a name token'],
        trusted_base=['ser(e) is defined as str(e): publication applies the verified __str__ contracts',
                      'class invariant of published groups (begin + contents + end) used when a reader inspects args[0].string'],
        assumptions=['the statement proved is conservation modulo ALL blank characters (NW) plus exactness under tight(); the '
                     'property\'s finer clause (only whitespace directly before an argument opener may vanish) is checked bounded',
                     'open findings D5, D6, D17, D18 are excluded by the definition of clean()/tight()'],
        explanation='conservation clauses (exact-when-tight, conserves-non-blank) on every reader, composed through read_tex, '
                    'tex.read and TexSoup'),
    'C01': dict(
        bounded=['parse.py', 'tree.py'],
        select=lambda c: c.qual.split('.')[0] in ('reader', 'tex', '__init__') or
        c.qual in ('data.TexExpr.__init__', 'data.TexExpr.append', 'data.TexCmd.__str__', 'data.TexEnv.__str__',
                   'data.TexArgs.__str__', 'category.categorize', 'utils.Buffer.forward_until') or
        c.qual.startswith('tokens.'),
        level='other',
        lemmas=['L01: TexSoup(S) returns and tight(root) ==> str(soup) == S (postcondition `exact` of TexSoup/read)'],
        assumptions=['"parsing succeeds and the tree is tight on every well-formed document with adjacent arguments" quantifies over '
                     'a grammar; it is checked bounded (construct-level enumeration), not proved',
                     'node-level slices: the per-reader clause exact-when-tight gives str(node) == W(first,last); equality with the '
                     'source slice at node.position follows from C13 and C19 (M4)'],
        explanation='conditional theorem proved for all inputs; success/tightness on the grammar bounded'),
    'C07': dict(
        select=lambda c: c.qual.split('.')[0] in ('reader',),
        level='other',
        bounded=['parse.py'], extra=lambda repo: modeflow_obligations(repo, 'tolerance'),
        assumptions=['clause 1 (strict success implies identical tolerant result) and clause 2 are checked bounded only; the deductive '
                     'part is: TypeError is raised by read_arg only in strict mode, strict returns imply closed groups '
                     '(read_arg#strict-implies-closed), read_env consumes the closer only when the names match'],
        explanation='bounded product run strict/tolerant over the construct-level enumeration plus reader clauses'),
    'C16': dict(
        select=lambda c: c.qual in ('data.TexCmd.__str__', 'data.TexEnv.__str__', 'data.TexArgs.__str__',
                                    'category.categorize'),
        level='other',
        bounded=['parse.py'],
        assumptions=['the fixed-point property composes parse and serialise twice; only the supporting facts (serialisers print '
                     'arguments adjacent to the name; exactness under tight()) are deductive, the property itself is bounded'],
        explanation='bounded: all strings of <= 3/4 atoms over a 33-atom construct alphabet and <= 4/5 over 13 atoms, prefixes and '
                    'deletions of sample documents, random longer strings'),
    'C02': dict(
        select=lambda c: c.qual.split('.')[0] in ('reader',) or c.qual.startswith('tokens.tokenize_command_name') or
        c.qual in ('data.TexExpr.__init__', 'data.TexExpr.append'),
        level='other', bounded=['tree.py'], extra=modeflow_obligations,
        lemmas=['M2 (DESIGN 9): the bracketing clauses determine the tree uniquely from the token stream (not mechanised)'],
        assumptions=['equality with the generating syntax tree quantifies over a grammar: bounded (generated documents, depth 3/4)',
                     'proved clauses: kind by opening token (read_arg#kind), text leaves are single tokens '
                     '(read_expr#text-leaf-is-the-token), \\item owns up to the next \\item/\\end/closing brace '
                     '(read_item#owns-up-to-next-item-or-end), name token (read_command#name-token), command names are maximal '
                     'runs of letters and * (tokenize_command_name)',
                     'mode flow (definition bodies, math): a syntactic data-flow scan of reader.py (pyvc/modeflow.py) with the '
                     'allow-list contracts/modeflow_allow.json, not a solver obligation; allow-listed restarts of the mode '
                     '(\\item bodies, math regions) are not claimed inside definition bodies'],
        explanation='bracketing clauses on the readers for all inputs; the parsing mode reaches every nested reader '
                    '(mode-flow scan); tree equality on generated documents incl. \\newcommand-style definitions'),
    'C09': dict(
        select=lambda c: c.qual in ('tokens.tokenize_spacers', 'tokens.tokenize_symbols', 'reader.read_spacer', 'reader.read_arg',
                                    'reader.read_arg_optional', 'reader.read_arg_required', 'reader.read_args', 'reader.read_expr'),
        level='other', bounded=['constructs.py'],
        assumptions=['the composed statement over command/separator/group sequences is checked bounded; the proved clauses are: '
                     'a MergedSpacer token is blanks with at most one line end and is not followed by text '
                     '(tokenize_spacers), read_spacer takes exactly one such token, the argument loops are maximal and roll a '
                     'rejected spacer back, read_arg closes only on its own delimiter kind'],
        explanation='spacer token shape, argument loops (maximality, rollback), group closing rule'),
    'C10': dict(
        select=lambda c: c.qual in ('tokens.tokenize_line_comment', 'tokens.tokenize_escaped_symbols', 'tokens.next_token',
                                    'tokens.tokenize', 'reader.read_expr'),
        level='other', bounded=['constructs.py'],
        assumptions=['payload independence of the surrounding tree is a two-run property: checked bounded (payloads over a hostile '
                     'alphabet in every context); proved: the comment token is % plus everything up to the next line end, '
                     'escaped symbols are claimed first, a Comment token becomes a text leaf'],
        explanation='comment tokenizer clauses and leaf dispatch; payload substitution bounded'),
    'C11': dict(
        select=lambda c: c.qual in ('reader.read_skip_env', 'reader.read_expr', 'utils.Buffer.forward_until',
                                    'utils.Buffer.startswith', 'reader.read_tex'),
        level='other', bounded=['constructs.py'], extra=lambda repo: modeflow_obligations(repo, 'skip_envs'),
        assumptions=['coincidence of the first \\end{name} in the source with the first token boundary whose remaining text '
                     'starts with it is checked bounded', 'open findings D5 (fixed forward(5)) and D19 (\\item drops skip_envs)'],
        explanation='read_skip_env: the body is one raw text equal to the skipped tokens, no reader is invoked on it'),
    'C12': dict(
        select=lambda c: c.qual in ('tokens.tokenize_math_sym_switch', 'tokens.tokenize_math_asym_switch',
                                    'tokens.tokenize_escaped_symbols', 'tokens.tokenize_punctuation_command_name',
                                    'reader.read_math_env', 'reader.read_expr', 'reader.read_args', 'reader.read_command',
                                    'data.TexEnv.__str__'),
        level='other', bounded=['constructs.py'],
        assumptions=['composition over adjacent regions and contexts is bounded'],
        explanation='math tokenizers, read_math_env (closed by its own delimiter, body exact), zero-argument operators'),
    'C13': dict(
        select=lambda c: c.qual.startswith('utils.Token.') or c.qual.startswith('utils.CharToLineOffset') or
        c.qual.split('.')[0] in ('tokens', 'category') or c.qual in ('reader.read_expr', 'reader.read_arg', 'utils.Buffer.__next__',
                                                                    'utils.Buffer.forward_until', 'data.TexExpr.__init__'),
        level='other', bounded=['c13.py'],
        assumptions=['Token.strip/lstrip/rstrip offsets and search_regex (external re module) are checked bounded only',
                     'bisect.bisect_left is used under its documented contract'],
        lemmas=['positions: categorize gives character k position k; every tokenizer gives its token the offset of its first '
                'character; read_expr/read_arg give a node the position of its first token; CharToLineOffset.__call__ returns '
                'the number of line breaks before the offset and the distance to the last one'],
        explanation='position clauses through categorize, tokenizers, readers; line/column map verified against nlpos'),
    'C17': dict(
        select=lambda c: c.qual in ('tex.read', '__init__.TexSoup', 'tokens.tokenize_punctuation_command_name', 'reader.read_command'),
        extra=frame_obligations,
        level='other', bounded=['c17.py'],
        lemmas=['a function without hidden inputs is a function of its arguments: F1-F6 show that no function of the six modules '
                'reads or writes state that outlives a call, apart from the allow-listed import-time sites'],
        assumptions=['CPython is deterministic apart from the nondeterminism sources the scan looks for (set iteration order, '
                     'hash(), id(), os/time/random)', 'behaviour under a different hash seed is covered through the absence of '
                     'set-order and hash dependence (sorted() with a total key is evaluated by the executor, ties are rejected)'],
        explanation='flattening clause of tex.read for chunked input, frame/purity scan over all functions with an allow-list, '
                    'deterministic iteration order in the sizing-command tokenizer; forms/seeds/isolation bounded'),
    'C18': dict(
        select=lambda c: c.qual.startswith('data.TexArgs.') or c.qual in ('data.TexExpr.__init__', 'data.TexCmd.__str__',
                                                                           'data.TexEnv.__str__', 'data.TexExpr.__eq__'),
        level='other', bounded=['c18.py'],
        lemmas=['M1 simulation: every TexArgs method refines the corresponding list operation on the view `items`, so every '
                'finite history does (induction on length; mechanised: lemmas/Lemmas.lean M1_simulation)'],
        trusted_base=['the bookkeeping list TexArgs.all is modelled only as far as its lookups can raise: it is ASSUMED (class '
                      'invariant, not re-proved: it needs multiset counting) to hold every element the argument list had at '
                      'function entry, plus what the call has added so far; a lookup of anything else raises ValueError (this is '
                      'the obligation that fails for D24); its order and whitespace entries are not modelled',
                      'list.__init__/insert/remove/pop/reverse/clear/__getitem__ of the base class follow the language reference'],
        assumptions=['TexArgs.__contains__ is not verified (bounded only); construction from another TexArgs reads it as its item list',
                     'coercion: a string is accepted iff it is blank or delimited like a group; TexGroup.parse is executed in place'],
        explanation='append, extend, insert (any index), remove, pop, reverse, clear, indexing, slicing, __str__ and the '
                    'constructor are verified against list semantics on the view; a rejected string leaves the list unchanged; '
                    'BFS against a Python list (duplicates included) is the bounded cross-check'),
    'C03': dict(
        select=lambda c: c.qual in ('data.TexNode.find_all', 'data.TexNode.find', 'data.TexNode.count', 'data.TexNode.__getattr__',
                                    'data.TexNode.__match__', 'data.TexExpr.__match__', 'data.TexEnv.__match__',
                                    'data.TexNode.descendants', 'data.TexNode.__descendants', 'data.TexNode.contents',
                                    'data.TexNode.children', 'data.TexExpr.all', 'data.TexExpr.contents', 'data.TexExpr.children')
        or c.key == 'data.TexNode.__init__[wrap]',
        level='proof', bounded=['tree.py'],
        lemmas=['M5 (mechanised: lemmas/Lemmas.lean M5_desc_perm / M5): DESC(n), the sequence defined by '
                'DESC(n) = wrap(contents(n)) ++ concat(DESC(c) for c in children(n)), enumerates every node below n in the '
                'environment bodies, list items, math regions, brace groups and argument groups exactly once (trees are finite and '
                'share no sub-trees)',
                'L-filter / L-map (mechanised: lemmas/Lemmas.lean L_filter, L_filter_sublist, L_map_length, L_map_get): an element of a filter fold satisfies its predicate; a map '
                'fold keeps the length and is pointwise',
                'L-name (character level): a non-empty string of ASCII letters and * contains no brace/bracket and does not start '
                'with a delimiter literal'],
        trusted_base=['TexNode wrappers are modelled as values (expression, node reached from): the views build fresh wrappers and '
                      'never mutate them after the parent assignment, which the executor sees',
                      'fold equations of CONTF, ARGC, KIDS, NWRAP, NSUB, DESCS, FOUND are definitions supplied at the touched prefixes',
                      'builtin filter() and itertools.chain(a, *[f(c) for c in cs]) are given their list semantics by hooks that '
                      'evaluate the function on an arbitrary element (contracts/views_c.py filter_hook, chain_comp_hook)'],
        assumptions=['T-finite: expression trees are finite and acyclic (children lie strictly below their parent): termination '
                     'measure of descendants/text and the each-once reading of DESC; true of parsed documents, an edit could break it',
                     'no extra attribute filters (**attrs empty); the attrs dictionary mutated by TexExpr.__match__ is rebound locally, '
                     'its aliasing with the caller\'s dictionary is not modelled (the stored value is the same name every time)',
                     'a list of names contains neither "{" nor "["',
                     'the plain-name clause is stated for the classes the parser creates (commands, named environments, groups, math)'],
        explanation='find_all is the filter of the descendant sequence by the match predicate (loop invariant over the real loop); '
                    'find/count/attribute access are its first element/length; the match predicates of TexExpr/TexEnv are verified '
                    'against MATCH; descendants against the transitive-closure equation with a termination measure'),
    'C04': dict(
        select=lambda c: c.qual in ('data.TexExpr.all', 'data.TexExpr.contents', 'data.TexExpr.children', 'data.TexNode.all',
                                    'data.TexNode.contents', 'data.TexNode.children', 'data.TexNode.__iter__',
                                    'data.TexNode.__getitem__', 'data.TexNode.descendants', 'data.TexNode.__descendants',
                                    'data.TexNode.text', 'tex.read', '__init__.TexSoup')
        or c.key == 'data.TexNode.__init__[wrap]',
        level='proof', bounded=['tree.py'],
        lemmas=['M5 (see C03): DESC is the transitive closure of contents, every node once',
                'L-filter / L-map (see C03)',
                'root: the root has no arguments, so its complete content list is its body, whose texts concatenate to the source '
                'by tex.read#exact (C01; under C01\'s tightness hypothesis and open findings)'],
        trusted_base=['TexNode wrappers as values (see C03)', 'fold equations are definitions (see C03)'],
        assumptions=['T-finite (see C03)', 'parent is recorded as the node value the element was reached from; walking parents to the '
                     'root follows from the datatype (a sub node carries its parent term)'],
        explanation='every view is verified against a fold over the expression\'s argument groups and body: contents = all without '
                    'whitespace-only text (TexText unwrapped), children = commands/environments of contents, node views = the '
                    'expression views wrapped with parent self, iteration/indexing = contents, descendants = closure equation, '
                    'text = text leaves in order'),
    'C05': dict(
        select=lambda c: c.qual.startswith('data.TexExpr.') or c.qual.startswith('data.TexArgs.') or c.qual in ('data.TexCmd.__str__', 'data.TexEnv.__str__'),
        level='other', bounded=['edits.py'],
        lemmas=['M3 splice (DESIGN 9): replacing the content list of one node changes the serialisation of the root exactly at '
                'that node (ser is a homomorphic fold; structural induction; mechanised: lemmas/Lemmas.lean M3_splice)'],
        assumptions=['TexNode.delete/replace/replace_with/remove/insert/append (the wrappers that locate the container) are not '
                     'under contract; they are covered by the bounded edit sweep against the reference model',
                     'open finding D9: lookups by textual equality edit the first textual twin'],
        explanation='list-splice contracts of TexExpr.append/insert/remove and of the TexArgs mutators; single edits on '
                    'generated documents against a reference document model (forced twins included)'),
    'C14': dict(
        select=lambda c: c.qual in ('data.TexArgs.__getitem__', 'data.TexArgs.__init__', 'data.TexArgs.reverse',
                                    'data.TexArgs.append', 'data.TexArgs.insert', 'data.TexCmd.__str__', 'data.TexEnv.__str__',
                                    'data.TexArgs.__str__', 'data.TexExpr.__init__', 'data.TexExpr.__eq__',
                                    'data.TexExpr.__match__', 'data.TexEnv.__match__', 'data.TexNode.__match__'),
        level='other', bounded=['edits.py'],
        assumptions=['the name/string/args setters of TexNode and TexExpr are plain field stores and are not separately under '
                     'contract; "re-parsing shows the same change" needs the parser on a new string: bounded'],
        explanation='serialisers read the current fields (both \\begin and \\end are built from the current name); slicing an '
                    'argument list returns an argument list of the same groups; rename/re-string/re-argument on generated '
                    'documents against the reference model incl. re-parse'),
    'C15': dict(
        select=lambda c: c.qual.startswith('data.TexExpr.') or c.qual.startswith('data.TexArgs.') or c.qual in ('data.TexCmd.__str__', 'data.TexEnv.__str__'),
        level='other', bounded=['edits.py'],
        lemmas=['M1 simulation (DESIGN 9; lemmas/Lemmas.lean M1_simulation) over the per-operation contracts'],
        assumptions=['TexNode-level wrappers and the navigation/search views are not under contract (bounded)',
                     'open finding D9'],
        explanation='per-operation list contracts; histories of 2..5 edits on generated documents against the reference model '
                    'with consistency of search, parents and text after every step'),
}
