/-
  Mechanised versions of the linking lemmas that the TexSoup contracts use outside the SMT solvers
  (DESIGN.md section 9).  Checked by `lean lemmas/Lemmas.lean` (Lean 4.33, Mathlib).

  The statements are generic: the contracts instantiate them (α := published expressions, tokens, buffers ...).
-/
import Mathlib

namespace TexSoupLemmas

/-! ### Folds given by `empty` / `snoc` equations are well defined (the engine's "definitional unfoldings") -/

/-- Any function that satisfies the two equations the engine supplies (`F [] = init`, `F (xs ++ [x]) = step (F xs) x`)
    is the left fold, so the equations define `F` uniquely and consistently. -/
theorem fold_unique {α β : Type} (F : List α → β) (init : β) (step : β → α → β)
    (h0 : F [] = init) (hs : ∀ xs x, F (xs ++ [x]) = step (F xs) x) :
    ∀ xs, F xs = xs.foldl step init := by
  intro xs
  induction xs using List.reverseRecOn with
  | nil => simpa using h0
  | append_singleton xs x ih => rw [hs, ih, List.foldl_append]; rfl

/-! ### L-filter and L-map -/

/-- the filter fold in snoc form -/
def filterStep {α : Type} (p : α → Bool) (acc : List α) (x : α) : List α := if p x then acc ++ [x] else acc

theorem filter_fold_eq {α : Type} (p : α → Bool) (xs : List α) :
    xs.foldl (filterStep p) [] = xs.filter p := by
  induction xs using List.reverseRecOn with
  | nil => rfl
  | append_singleton xs x ih =>
    rw [List.foldl_append, ih]
    simp only [List.foldl_cons, List.foldl_nil, filterStep, List.filter_append, List.filter_cons, List.filter_nil]
    split <;> simp

/-- L-filter: every element of a filter fold satisfies the predicate -/
theorem L_filter {α : Type} (p : α → Bool) (xs : List α) (x : α)
    (h : x ∈ xs.foldl (filterStep p) []) : p x = true := by
  rw [filter_fold_eq] at h
  exact (List.mem_filter.mp h).2

/-- L-filter (order): a filter fold is a sublist of its input (nothing spurious, order kept, each at most once per position) -/
theorem L_filter_sublist {α : Type} (p : α → Bool) (xs : List α) :
    (xs.foldl (filterStep p) []).Sublist xs := by
  rw [filter_fold_eq]; exact List.filter_sublist

/-- the map fold in snoc form -/
def mapStep {α β : Type} (f : α → β) (acc : List β) (x : α) : List β := acc ++ [f x]

theorem map_fold_eq {α β : Type} (f : α → β) (xs : List α) : xs.foldl (mapStep f) [] = xs.map f := by
  induction xs using List.reverseRecOn with
  | nil => rfl
  | append_singleton xs x ih => rw [List.foldl_append, ih]; simp [mapStep]

/-- L-map: a map fold keeps the length and is pointwise -/
theorem L_map_length {α β : Type} (f : α → β) (xs : List α) : (xs.foldl (mapStep f) []).length = xs.length := by
  rw [map_fold_eq]; simp

theorem L_map_get {α β : Type} (f : α → β) (xs : List α) (k : Nat) (hk : k < xs.length) :
    (xs.foldl (mapStep f) [])[k]? = some (f xs[k]) := by
  rw [map_fold_eq]; simp [hk]

/-! ### M1: simulation - if every operation preserves the invariant and refines its model operation, every finite
    history does (Buffer vs list+index, TexArgs vs list, edit histories vs the reference model) -/

theorem M1_simulation {C A Op : Type} (cstep : C → Op → C) (astep : A → Op → A) (abs : C → A) (Inv : C → Prop)
    (hstep : ∀ c op, Inv c → Inv (cstep c op) ∧ abs (cstep c op) = astep (abs c) op) :
    ∀ (ops : List Op) (c : C), Inv c →
      Inv (ops.foldl cstep c) ∧ abs (ops.foldl cstep c) = ops.foldl astep (abs c) := by
  intro ops
  induction ops with
  | nil => intro c hc; exact ⟨hc, rfl⟩
  | cons op ops ih =>
    intro c hc
    obtain ⟨h1, h2⟩ := hstep c op hc
    have := ih (cstep c op) h1
    simp only [List.foldl_cons]
    rw [← h2]
    exact this

/-! ### M4: tokens that are increasing slices of the source whose gaps hold only ignorable characters concatenate to
    the source when it has no ignorable character -/

/-- the shape `tokenize` ensures, read from position `a`: head gap, token, rest; tail gap -/
def TokChain {χ : Type} (S : List χ) (ign : χ → Prop) : Nat → List (Nat × List χ) → Prop
  | a, [] => a ≤ S.length ∧ ∀ i, a ≤ i → (h : i < S.length) → ign S[i]
  | a, (p, t) :: rest =>
      a ≤ p ∧ (∀ i, a ≤ i → i < p → (h : i < S.length) → ign S[i]) ∧ t ≠ [] ∧
      (S.drop p).take t.length = t ∧ p + t.length ≤ S.length ∧ TokChain S ign (p + t.length) rest

theorem M4_partition {χ : Type} (S : List χ) (ign : χ → Prop)
    (hno : ∀ i, (h : i < S.length) → ¬ ign S[i]) :
    ∀ (toks : List (Nat × List χ)) (a : Nat), TokChain S ign a toks →
      (toks.map Prod.snd).flatten = S.drop a := by
  intro toks
  induction toks with
  | nil =>
    intro a h
    obtain ⟨hle, hgap⟩ := h
    have : a = S.length := by
      by_contra hne
      have hlt : a < S.length := lt_of_le_of_ne hle hne
      exact hno a hlt (hgap a (le_refl a) hlt)
    subst this
    simp
  | cons pt rest ih =>
    intro a h
    obtain ⟨p, t⟩ := pt
    obtain ⟨hap, hgap, _hne, hslice, hend, hrest⟩ := h
    have hpa : p = a := by
      by_contra hne
      have hlt : a < p := lt_of_le_of_ne hap (Ne.symm hne)
      have hS : a < S.length := by omega
      exact hno a hS (hgap a (le_refl a) hlt hS)
    subst hpa
    have ih' := ih (p + t.length) hrest
    simp only [List.map_cons, List.flatten_cons]
    rw [ih', ← hslice, List.length_take, List.length_drop]
    have : min t.length (S.length - p) = t.length := by omega
    rw [this]
    conv_rhs => rw [← List.take_append_drop t.length (S.drop p)]
    rw [List.drop_drop, hslice]


/-! ### M5: the descendant sequence of the contracts enumerates every node below a node exactly once -/


/-- documents as rose trees: text leaves and nodes (commands, environments, groups) with their content list -/
inductive T where
  | leaf : String → T
  | node : String → List T → T

mutual
/-- the sequence the contracts call DESC: contents, then the descendants of each child in order -/
def desc : T → List T
  | .leaf _ => []
  | .node _ ks => ks ++ descs ks
def descs : List T → List T
  | [] => []
  | k :: ks => desc k ++ descs ks
end

mutual
/-- every proper sub-tree, in document (pre-)order: the transitive closure of `contents` -/
def sub : T → List T
  | .leaf _ => []
  | .node _ ks => subs ks
def subs : List T → List T
  | [] => []
  | k :: ks => k :: (sub k ++ subs ks)
end

mutual
theorem M5_desc_perm : ∀ t : T, (desc t).Perm (sub t)
  | .leaf _ => by simp [desc, sub]
  | .node _ ks => by
      simp only [desc, sub]
      exact M5_descs_perm ks
theorem M5_descs_perm : ∀ ks : List T, (ks ++ descs ks).Perm (subs ks)
  | [] => by simp [descs, subs]
  | k :: ks => by
      simp only [descs, subs, List.cons_append]
      refine List.Perm.cons k ?_
      have h1 := M5_desc_perm k
      have h2 := M5_descs_perm ks
      -- ks ++ (desc k ++ descs ks) ~ desc k ++ (ks ++ descs ks) ~ sub k ++ subs ks
      have e1 : ks ++ (desc k ++ descs ks) = (ks ++ desc k) ++ descs ks := by simp
      have e2 : (desc k ++ ks) ++ descs ks = desc k ++ (ks ++ descs ks) := by simp
      rw [e1]
      refine List.Perm.trans (List.Perm.append_right _ List.perm_append_comm) ?_
      rw [e2]
      exact List.Perm.append h1 h2
end

/-- M5: DESC enumerates every node below `t` exactly once: it has the same elements with the same multiplicities as
    the list of all proper sub-trees (positions), so nothing is missing, nothing spurious, nothing twice -/
theorem M5 (t : T) (x : T) [DecidableEq T] : (desc t).count x = (sub t).count x :=
  (M5_desc_perm t).count_eq x


/-! ### M3: splice - an edit of one sub-tree changes the serialisation exactly at that sub-tree -/


variable (opn cls : String → List Char)

mutual
/-- serialisation is a homomorphic fold: opening ++ children ++ closing -/
def ser : T → List Char
  | .leaf s => s.toList
  | .node n ks => opn n ++ sers ks ++ cls n
def sers : List T → List Char
  | [] => []
  | k :: ks => ser k ++ sers ks
end

mutual
/-- replace the sub-tree at a path (child indices); an invalid path leaves the tree unchanged -/
def replaceAt : T → List Nat → T → T
  | _, [], new => new
  | .leaf s, _ :: _, _ => .leaf s
  | .node n ks, i :: p, new => .node n (replaceIn ks i p new)
def replaceIn : List T → Nat → List Nat → T → List T
  | [], _, _, _ => []
  | k :: ks, 0, p, new => replaceAt k p new :: ks
  | k :: ks, i + 1, p, new => k :: replaceIn ks i p new
end

mutual
/-- M3 (splice): an edit of one sub-tree changes the serialisation of the whole document exactly at that sub-tree's
    text: there are a prefix and a suffix, independent of the new sub-tree, around its serialisation -/
theorem M3_splice : ∀ (t : T) (p : List Nat),
    (∀ new, replaceAt t p new = t) ∨
    ∃ pre suf, ∀ new, ser opn cls (replaceAt t p new) = pre ++ ser opn cls new ++ suf
  | t, [] => Or.inr ⟨[], [], by intro new; cases t <;> simp [replaceAt]⟩
  | .leaf s, _ :: _ => Or.inl (by intro new; simp [replaceAt])
  | .node n ks, i :: p => by
      rcases M3_splice_list ks i p with h | ⟨pre, suf, h⟩
      · exact Or.inl (by intro new; simp [replaceAt, h new])
      · refine Or.inr ⟨opn n ++ pre, suf ++ cls n, ?_⟩
        intro new
        simp [replaceAt, ser, h new, List.append_assoc]
theorem M3_splice_list : ∀ (ks : List T) (i : Nat) (p : List Nat),
    (∀ new, replaceIn ks i p new = ks) ∨
    ∃ pre suf, ∀ new, sers opn cls (replaceIn ks i p new) = pre ++ ser opn cls new ++ suf
  | [], _, _ => Or.inl (by intro new; simp [replaceIn])
  | k :: ks, 0, p => by
      rcases M3_splice k p with h | ⟨pre, suf, h⟩
      · exact Or.inl (by intro new; simp [replaceIn, h new])
      · refine Or.inr ⟨pre, suf ++ sers opn cls ks, ?_⟩
        intro new
        simp [replaceIn, sers, h new, List.append_assoc]
  | k :: ks, i + 1, p => by
      rcases M3_splice_list ks i p with h | ⟨pre, suf, h⟩
      · exact Or.inl (by intro new; simp [replaceIn, h new])
      · refine Or.inr ⟨ser opn cls k ++ pre, suf, ?_⟩
        intro new
        simp [replaceIn, sers, h new, List.append_assoc]
end




/-! ### name_lemma / L-name: strings of name characters (ASCII letters and `*`), for any notion of blank character
    that contains no name character (Python's `str.strip` / `str.isspace`, the contracts' NW) -/

variable {χ : Type} (isName ws : χ → Bool)

/-- `str.strip()` as a list function: drop blanks on both sides -/
def strip (s : List χ) : List χ := ((s.dropWhile ws).reverse.dropWhile ws).reverse

/-- the contracts' NW: erase every blank character -/
def NW (s : List χ) : List χ := s.filter (fun c => !ws c)

theorem dropWhile_all_not {p : χ → Bool} : ∀ (s : List χ), (∀ c ∈ s, p c = false) → s.dropWhile p = s
  | [], _ => rfl
  | c :: s, h => by
      have hc : p c = false := h c (by simp)
      simp [List.dropWhile, hc]

/-- name_lemma: a string of name characters has no blank and is unchanged by strip -/
theorem name_lemma (hdisj : ∀ c, isName c = true → ws c = false) (s : List χ)
    (hs : ∀ c ∈ s, isName c = true) : NW ws s = s ∧ strip ws s = s := by
  have hws : ∀ c ∈ s, ws c = false := fun c hc => hdisj c (hs c hc)
  constructor
  · unfold NW
    apply List.filter_eq_self.mpr
    intro c hc
    simp [hws c hc]
  · unfold strip
    rw [dropWhile_all_not s hws]
    have hr : ∀ c ∈ s.reverse, ws c = false := fun c hc => hws c (List.mem_reverse.mp hc)
    rw [dropWhile_all_not s.reverse hr, List.reverse_reverse]

/-- L-name (1): a string of name characters contains no character that is not a name character (brace, bracket,
    backslash, dollar, ...) -/
theorem L_name_no_other (s : List χ) (hs : ∀ c ∈ s, isName c = true) (c : χ) (hc : isName c = false) : c ∉ s := by
  intro hmem
  have := hs c hmem
  rw [hc] at this
  exact Bool.noConfusion this

/-- L-name (2): a string of name characters does not start with (nor equal) a literal that contains another
    character: the delimiter literals `{ } [ ] $ $$ \( \) \[ \] \begin{ \end{` -/
theorem L_name_no_prefix (s lit : List χ) (hs : ∀ c ∈ s, isName c = true)
    (hl : ∃ c ∈ lit, isName c = false) : ¬ lit <+: s := by
  intro hp
  obtain ⟨c, hc, hn⟩ := hl
  exact L_name_no_other isName s hs c hn (hp.subset hc)


end TexSoupLemmas

-- the axioms each mechanised lemma depends on (printed by `lean lemmas/Lemmas.lean`; expected: none beyond
-- propext / Classical.choice / Quot.sound from Mathlib's list library)
#print axioms TexSoupLemmas.fold_unique
#print axioms TexSoupLemmas.L_filter
#print axioms TexSoupLemmas.L_map_length
#print axioms TexSoupLemmas.M1_simulation
#print axioms TexSoupLemmas.M4_partition
#print axioms TexSoupLemmas.M5
#print axioms TexSoupLemmas.M3_splice
#print axioms TexSoupLemmas.name_lemma
#print axioms TexSoupLemmas.L_name_no_prefix
